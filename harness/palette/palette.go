// Package palette maps the specification's integer keys and values to byte strings.
// A palette is an order-preserving injection: 2K+1 byte strings in strictly ascending
// byte order; spec key i (1..K) is position 2i-1, the even positions are "gap" keys that
// are never stored and serve as absent keys and as iteration bounds.
package palette

import (
	"bytes"
	"fmt"
	"math/rand"
	"sort"
)

type Palette struct {
	NoEmpty bool // WithoutEmptyValue was applied (recorded in replay files)
	Name string
	K    int
	pos  [][]byte // 2K+1 strictly ascending byte strings
	vals [][]byte
}

// Key returns the byte string of spec key k (1..K).
func (p *Palette) Key(k int) []byte { return p.pos[2*k-1] }

// Gap returns the never-stored byte string between key g and key g+1 (g in 0..K).
func (p *Palette) Gap(g int) []byte { return p.pos[2*g] }

// Pos returns position i (0..2K): even = gap, odd = key.
func (p *Palette) Pos(i int) []byte { return p.pos[i] }
func (p *Palette) NPos() int        { return len(p.pos) }

// KeyOf returns the spec key of a byte string, or 0.
func (p *Palette) KeyOf(b []byte) int {
	for i := 1; i < len(p.pos); i += 2 {
		if bytes.Equal(p.pos[i], b) {
			return (i + 1) / 2
		}
	}
	return 0
}

// Value returns the byte string of spec value v (0 = empty, non-nil).
func (p *Palette) Value(v int) []byte {
	if v < 0 {
		return nil
	}
	return p.vals[v%len(p.vals)]
}

// ValueOf is the inverse of Value; -1 for nil, -2 for an unknown byte string.
func (p *Palette) ValueOf(b []byte) int {
	if b == nil {
		return -1
	}
	for i, v := range p.vals {
		if bytes.Equal(v, b) {
			return i
		}
	}
	return -2
}

func mkvals(big bool) [][]byte {
	vals := [][]byte{{}}
	for i := 1; i < 8; i++ {
		if big && i%2 == 0 {
			vals = append(vals, bytes.Repeat([]byte{byte('A' + i)}, 700))
		} else {
			vals = append(vals, []byte(fmt.Sprintf("v%d", i)))
		}
	}
	return vals
}

func check(p *Palette) *Palette {
	for i := 1; i < len(p.pos); i++ {
		if bytes.Compare(p.pos[i-1], p.pos[i]) >= 0 {
			panic(fmt.Sprintf("palette %s not strictly ascending at %d", p.Name, i))
		}
	}
	for _, b := range p.pos {
		if len(b) == 0 {
			panic("palette with empty key")
		}
	}
	return p
}

// enumerate all byte strings over alphabet with length 1..maxLen, sorted.
func enumerate(alphabet []byte, maxLen int) [][]byte {
	var out [][]byte
	var rec func(cur []byte)
	rec = func(cur []byte) {
		if len(cur) > 0 {
			out = append(out, append([]byte(nil), cur...))
		}
		if len(cur) == maxLen {
			return
		}
		for _, a := range alphabet {
			rec(append(cur, a))
		}
	}
	rec(nil)
	sort.Slice(out, func(i, j int) bool { return bytes.Compare(out[i], out[j]) < 0 })
	return out
}

// pick chooses n entries of all, keeping order; contiguous runs (adjacent strings) are kept
// where possible by choosing a random window when the pool is large enough.
func pick(all [][]byte, n int, rng *rand.Rand, contiguous bool) [][]byte {
	if len(all) < n {
		panic("pool too small")
	}
	if contiguous {
		off := rng.Intn(len(all) - n + 1)
		return all[off : off+n]
	}
	idx := rng.Perm(len(all))[:n]
	sort.Ints(idx)
	out := make([][]byte, n)
	for i, j := range idx {
		out[i] = all[j]
	}
	return out
}

// Names lists the palette kinds.
var Names = []string{"single", "prefix", "long", "ff", "random", "mid", "huge"}

// New builds palette kind name for K keys.
func New(name string, k int, seed int64) *Palette {
	rng := rand.New(rand.NewSource(seed))
	n := 2*k + 1
	p := &Palette{Name: name, K: k}
	switch name {
	case "single":
		// single bytes including 0x00 and 0xff
		if n > 256 {
			panic("too many keys")
		}
		all := make([][]byte, 256)
		for i := range all {
			all[i] = []byte{byte(i)}
		}
		sel := pick(all[1:255], n-2, rng, rng.Intn(2) == 0)
		p.pos = append([][]byte{{0x00}}, sel...)
		p.pos = append(p.pos, []byte{0xff})
		p.vals = mkvals(false)
	case "prefix":
		// prefix-related and adjacent strings over a tiny alphabet: a, a\x00, a\x00\x00, a\x00\x01, ...
		all := enumerate([]byte{0x00, 0x01, 'a', 0xff}, 3)
		p.pos = pick(all, n, rng, rng.Intn(2) == 0)
		p.vals = mkvals(false)
	case "long":
		pre := bytes.Repeat([]byte{'p'}, 299)
		all := enumerate([]byte{0x00, 0x01, 0x7f, 0x80, 0xff}, 2)
		sel := pick(all, n, rng, false)
		for _, s := range sel {
			p.pos = append(p.pos, append(append([]byte(nil), pre...), s...))
		}
		p.vals = mkvals(true)
	case "mid":
		// keys and values whose length prefix sits at the one-byte / two-byte varint boundary (127, 128 ... 255, 256)
		pre := bytes.Repeat([]byte{'m'}, 126+rng.Intn(3))
		all := enumerate([]byte{0x00, 0x01, 0x7f, 0x80, 0xff}, 2)
		sel := pick(all, n, rng, false)
		for _, s := range sel {
			p.pos = append(p.pos, append(append([]byte(nil), pre...), s...))
		}
		p.vals = [][]byte{{}}
		for _, l := range []int{127, 128, 129, 200, 255, 256, 300} {
			p.vals = append(p.vals, bytes.Repeat([]byte{byte('a' + l%7)}, l))
		}
	case "huge":
		// short keys, values whose length prefix sits at the two-byte / three-byte varint boundary (16383, 16384)
		// and around 64 KiB (65535, 65536, 70000): the format has no length limit
		all := enumerate([]byte{0x00, 0x01, 'h', 0xff}, 3)
		p.pos = pick(all, n, rng, rng.Intn(2) == 0)
		p.vals = [][]byte{{}}
		for _, l := range []int{16383, 16384, 65535, 65536, 70000, 3, 40000} {
			p.vals = append(p.vals, bytes.Repeat([]byte{byte('a' + l%7)}, l))
		}
	case "ff":
		all := enumerate([]byte{0x00, 0xfe, 0xff}, 3)
		// keep the 0xff-heavy tail
		p.pos = pick(all[len(all)/3:], n, rng, rng.Intn(2) == 0)
		p.vals = mkvals(false)
	case "random":
		seen := map[string]bool{}
		for len(p.pos) < n {
			l := 1 + rng.Intn(6)
			b := make([]byte, l)
			rng.Read(b)
			if !seen[string(b)] {
				seen[string(b)] = true
				p.pos = append(p.pos, b)
			}
		}
		sort.Slice(p.pos, func(i, j int) bool { return bytes.Compare(p.pos[i], p.pos[j]) < 0 })
		p.vals = mkvals(rng.Intn(2) == 0)
	default:
		panic("unknown palette " + name)
	}
	// the specifications use three values (0 = empty): which of the palette's non-empty byte strings
	// stand for values 1 and 2 is drawn per palette instance, so that every boundary length gets its turn
	// (the older palettes keep their fixed order: committed witnesses name a palette and a seed)
	if len(p.vals) > 3 && (name == "mid" || name == "huge") {
		rest := p.vals[1:]
		rng.Shuffle(len(rest), func(i, j int) { rest[i], rest[j] = rest[j], rest[i] })
	}
	return check(p)
}

// WithoutEmptyValue maps spec value 0 to a non-empty byte string (for checks whose oracle
// cannot handle empty values: the ics23 verifier rejects empty leaf values by design).
func (p *Palette) WithoutEmptyValue() *Palette {
	p.vals = append([][]byte{[]byte("v0")}, p.vals[1:]...)
	p.NoEmpty = true
	return p
}
