// Package fault runs a behaviour with one storage call failing (C17) and takes crash images (C05).
package fault

import (
	"bytes"
	"errors"
	"fmt"
	"runtime/debug"
	"sort"
	"strings"

	"github.com/cosmos/iavl"
	dbm "github.com/cosmos/iavl/db"

	"verif/harness/faultdb"
	"verif/harness/hashref"
	"verif/harness/model"
	"verif/harness/palette"
)

var logger = iavl.NewNopLogger()

// Op is one call under test with the window of storage calls it issued and its outcome.
type Op struct {
	Step    int
	Name    string
	Writer  bool // changes (or may change) the durable state
	C0, C1  int  // storage calls [C0, C1)
	W0, W1  int  // physical batch writes [W0, W1)
	Outcome string
	Err     bool
	Panic   string
}

// Runner replays a behaviour on a MemDB behind a faultdb.
type Runner struct {
	B          *model.Behaviour
	Pal        *palette.Palette
	Cache      int
	Sync       bool // commit with WriteSync
	Persist    bool // every storage call from the failing one on fails
	Flush      int
	Probe      bool // run the read probes after every step
	SnapImages bool // copy the store after every physical write (crash images)

	Mem  *dbm.MemDB
	FDB  *faultdb.DB
	tree *iavl.MutableTree
	fast bool
	iv   int64
	Ops  []Op
	// mirror of the specification state after each step
	exporters map[int64]*iavl.Exporter
}

func (r *Runner) opts() []iavl.Option {
	o := []iavl.Option{iavl.FlushThresholdOption(r.Flush), iavl.SyncOption(r.Sync)}
	if r.iv != 0 {
		o = append(o, iavl.InitialVersionOption(uint64(r.iv)))
	}
	return o
}

func hx(b []byte) string {
	if b == nil {
		return "nil"
	}
	return fmt.Sprintf("%x", b)
}

// do runs f as one op under test.
func (r *Runner) do(step int, name string, writer bool, f func() (string, error)) (stop bool) {
	op := Op{Step: step, Name: name, Writer: writer, C0: r.FDB.Calls(), W0: r.FDB.Writes}
	func() {
		defer func() {
			if p := recover(); p != nil {
				op.Panic = fmt.Sprintf("%v\n%s", p, debug.Stack())
			}
		}()
		out, err := f()
		op.Outcome = out
		if err != nil {
			op.Err = true
			op.Outcome = "error"
		}
	}()
	op.C1 = r.FDB.Calls()
	op.W1 = r.FDB.Writes
	r.Ops = append(r.Ops, op)
	return op.Panic != ""
}

func (r *Runner) closeExporters() {
	for v, x := range r.exporters {
		x.Close()
		delete(r.exporters, v)
	}
}

// Run executes steps 0..upto (inclusive) and, if Probe, the read probes after each step.
// stopAfterOp >= 0: stop as soon as that many ops have been recorded.
func (r *Runner) Run(failAt int, stopAfterOps int) {
	r.Mem = dbm.NewMemDB()
	r.FDB = faultdb.New(r.Mem)
	r.FDB.FailAt = failAt
	r.FDB.Persist = r.Persist
	r.FDB.Snap = r.SnapImages
	r.Ops = nil
	r.exporters = map[int64]*iavl.Exporter{}
	r.iv = r.B.Steps[0].IV
	p := r.Pal
	defer r.closeExporters()
	for i, s := range r.B.Steps {
		s := s
		var stop bool
		switch s.Op {
		case "open", "reopen":
			stop = r.do(i, s.Op, true, func() (string, error) {
				r.closeExporters()
				if r.tree != nil && i > 0 {
					_ = r.tree.Close()
				}
				r.fast = s.Args.Fast
				r.tree = iavl.NewMutableTree(r.FDB, r.Cache, !r.fast, logger, r.opts()...)
				v, err := r.tree.Load()
				return fmt.Sprint(v), err
			})
		case "reopenat":
			stop = r.do(i, s.Op, true, func() (string, error) {
				r.closeExporters()
				_ = r.tree.Close()
				r.fast = s.Args.Fast
				r.tree = iavl.NewMutableTree(r.FDB, r.Cache, !r.fast, logger, r.opts()...)
				v, err := r.tree.LoadVersion(s.Args.T)
				return fmt.Sprint(v), err
			})
		case "set":
			stop = r.do(i, s.Op, false, func() (string, error) {
				u, err := r.tree.Set(p.Key(s.Args.K), p.Value(s.Args.V))
				return fmt.Sprint(u), err
			})
		case "setnil":
			stop = r.do(i, s.Op, false, func() (string, error) {
				_, err := r.tree.Set(p.Key(s.Args.K), nil)
				if err == nil {
					return "accepted", nil
				}
				return "rejected", nil
			})
		case "rm":
			stop = r.do(i, s.Op, false, func() (string, error) {
				v, rem, err := r.tree.Remove(p.Key(s.Args.K))
				return fmt.Sprint(hx(v), rem), err
			})
		case "save":
			stop = r.do(i, s.Op, true, func() (string, error) {
				h, v, err := r.tree.SaveVersion()
				if err != nil && s.Ret.Err {
					return "refused", nil // the specification says this commit is an error anyway
				}
				return fmt.Sprint(hx(h), v), err
			})
		case "savecs":
			stop = r.do(i, s.Op, true, func() (string, error) {
				cs := &iavl.ChangeSet{}
				for _, c := range s.Args.CS {
					kp := &iavl.KVPair{Key: p.Key(c.K), Delete: c.Del}
					if !c.Del {
						kp.Value = p.Value(c.V)
					}
					cs.Pairs = append(cs.Pairs, kp)
				}
				v, err := r.tree.SaveChangeSet(cs)
				if err != nil && s.Ret.Err {
					return "refused", nil
				}
				return fmt.Sprint(v), err
			})
		case "rollback":
			stop = r.do(i, s.Op, false, func() (string, error) { r.tree.Rollback(); return "", nil })
		case "load":
			stop = r.do(i, s.Op, true, func() (string, error) {
				v, err := r.tree.LoadVersion(s.Args.T)
				if err != nil && s.Ret.Err {
					return "refused", nil
				}
				return fmt.Sprint(v), err
			})
		case "lvfo":
			stop = r.do(i, s.Op, true, func() (string, error) {
				err := r.tree.LoadVersionForOverwriting(s.Args.T)
				if err != nil && s.Ret.Err {
					return "refused", nil
				}
				return "", err
			})
		case "delto":
			stop = r.do(i, s.Op, true, func() (string, error) {
				err := r.tree.DeleteVersionsTo(s.Args.N)
				if err != nil && s.Ret.Err {
					return "refused", nil
				}
				return "", err
			})
		case "expopen":
			stop = r.do(i, s.Op, false, func() (string, error) {
				it, err := r.tree.GetImmutable(s.Args.T)
				if err != nil {
					return "", err
				}
				x, err := it.Export()
				if err != nil {
					return "", err
				}
				r.exporters[s.Args.T] = x
				return "", nil
			})
		case "expclose":
			stop = r.do(i, s.Op, false, func() (string, error) {
				if x := r.exporters[s.Args.T]; x != nil {
					x.Close()
					delete(r.exporters, s.Args.T)
				}
				return "", nil
			})
		default:
			panic("fault runner: unsupported op " + s.Op)
		}
		if stop || (stopAfterOps >= 0 && len(r.Ops) >= stopAfterOps) {
			return
		}
		// a failed writer ends the run: what follows would run on an undefined handle state
		if last := r.Ops[len(r.Ops)-1]; last.Err && last.Writer {
			return
		}
		if r.Probe {
			if r.probes(i, s, stopAfterOps) {
				return
			}
		}
	}
}

func pairsText(ps [][2][]byte) string {
	var sb strings.Builder
	for _, p := range ps {
		fmt.Fprintf(&sb, "%x=%x;", p[0], p[1])
	}
	return sb.String()
}

// probes: the read APIs that have an error result, on the working state, the latest and the first version.
func (r *Runner) probes(i int, s *model.Step, stopAfterOps int) bool {
	p := r.Pal
	t := r.tree
	keys := [][]byte{p.Key(1), p.Key(p.K), p.Gap(1)}
	add := func(name string, f func() (string, error)) bool {
		if r.do(i, name, false, f) {
			return true
		}
		return stopAfterOps >= 0 && len(r.Ops) >= stopAfterOps
	}
	for ki, k := range keys {
		k := k
		if add(fmt.Sprintf("w.Get#%d", ki), func() (string, error) { v, err := t.Get(k); return hx(v), err }) {
			return true
		}
		if add(fmt.Sprintf("w.Has#%d", ki), func() (string, error) { v, err := t.Has(k); return fmt.Sprint(v), err }) {
			return true
		}
		if add(fmt.Sprintf("w.GetWithIndex#%d", ki), func() (string, error) { a, v, err := t.GetWithIndex(k); return fmt.Sprint(a, hx(v)), err }) {
			return true
		}
	}
	if add("w.GetByIndex", func() (string, error) { k, v, err := t.GetByIndex(0); return fmt.Sprint(hx(k), hx(v)), err }) {
		return true
	}
	if add("w.Iterate", func() (string, error) {
		var ps [][2][]byte
		_, err := t.Iterate(func(k, v []byte) bool {
			ps = append(ps, [2][]byte{append([]byte(nil), k...), append([]byte(nil), v...)})
			return false
		})
		return pairsText(ps), err
	}) {
		return true
	}
	for _, asc := range []bool{true, false} {
		asc := asc
		if add(fmt.Sprintf("w.Iterator(asc=%v)", asc), func() (string, error) {
			itr, err := t.Iterator(nil, nil, asc)
			if err != nil {
				return "", err
			}
			defer itr.Close()
			var ps [][2][]byte
			for ; itr.Valid(); itr.Next() {
				ps = append(ps, [2][]byte{append([]byte(nil), itr.Key()...), append([]byte(nil), itr.Value()...)})
			}
			return pairsText(ps), itr.Error()
		}) {
			return true
		}
	}
	if add("GetLatestVersion", func() (string, error) { v, err := t.GetLatestVersion(); return fmt.Sprint(v), err }) {
		return true
	}
	if s.Latest == 0 {
		return false
	}
	vers := []int64{s.Latest}
	if s.First != s.Latest {
		vers = append(vers, s.First)
	}
	for _, ver := range vers {
		ver := ver
		for ki, k := range keys[:2] {
			k := k
			if add(fmt.Sprintf("GetVersioned#%d@%d", ki, ver), func() (string, error) { v, err := t.GetVersioned(k, ver); return hx(v), err }) {
				return true
			}
		}
		if add(fmt.Sprintf("GetImmutable@%d+reads", ver), func() (string, error) {
			it, err := t.GetImmutable(ver)
			if err != nil {
				return "", err
			}
			var sb strings.Builder
			for _, k := range keys {
				v, err := it.Get(k)
				if err != nil {
					return "", err
				}
				h, err := it.Has(k)
				if err != nil {
					return "", err
				}
				idx, v2, err := it.GetWithIndex(k)
				if err != nil {
					return "", err
				}
				fmt.Fprint(&sb, hx(v), h, idx, hx(v2), "|")
			}
			var ps [][2][]byte
			if _, err := it.Iterate(func(k, v []byte) bool {
				ps = append(ps, [2][]byte{append([]byte(nil), k...), append([]byte(nil), v...)})
				return false
			}); err != nil {
				return "", err
			}
			sb.WriteString(pairsText(ps))
			return sb.String(), nil
		}) {
			return true
		}
		if add(fmt.Sprintf("GetImmutable@%d+proof", ver), func() (string, error) {
			it, err := t.GetImmutable(ver)
			if err != nil {
				return "", err
			}
			if it.Size() == 0 {
				return "empty", nil
			}
			var sb strings.Builder
			for _, k := range keys {
				pr, err := it.GetProof(k)
				if err != nil {
					return "", err
				}
				b, _ := pr.Marshal()
				fmt.Fprintf(&sb, "%x|", b)
			}
			return sb.String(), nil
		}) {
			return true
		}
		if add(fmt.Sprintf("Export@%d", ver), func() (string, error) {
			it, err := t.GetImmutable(ver)
			if err != nil {
				return "", err
			}
			x, err := it.Export()
			if err != nil {
				return "", err
			}
			defer x.Close()
			var sb strings.Builder
			for {
				n, err := x.Next()
				if errors.Is(err, iavl.ErrorExportDone) {
					break
				}
				if err != nil {
					return "", err
				}
				fmt.Fprintf(&sb, "%x:%x:%d:%d;", n.Key, n.Value, n.Version, n.Height)
			}
			return sb.String(), nil
		}) {
			return true
		}
	}
	if add("TraverseStateChanges", func() (string, error) {
		var sb strings.Builder
		err := t.TraverseStateChanges(s.First, s.Latest+1, func(v int64, cs *iavl.ChangeSet) error {
			fmt.Fprintf(&sb, "v%d:", v)
			for _, pr := range cs.Pairs {
				fmt.Fprintf(&sb, "%x=%x/%v;", pr.Key, pr.Value, pr.Delete)
			}
			return nil
		})
		return sb.String(), err
	}) {
		return true
	}
	return false
}

// Durable classifies a store image against the specification: the image must open, and the versions
// and their contents/hashes must be those after step pre (state before the op) or post.
// It returns "pre", "post", "pre=post" or a description of what is wrong.
func Durable(img map[string][]byte, b *model.Behaviour, step int, pal *palette.Palette, fast bool, opts []iavl.Option) string {
	return DurableAlt(img, b, step, pal, fast, opts, nil)
}

// StateAfter exposes the specification's durable state after a step.
func StateAfter(b *model.Behaviour, i int) *State { return stateAfter(b, i) }

// DurableAlt is Durable with additional admissible states: "alt" is returned if one of them matches.
func DurableAlt(img map[string][]byte, b *model.Behaviour, step int, pal *palette.Palette, fast bool, opts []iavl.Option, alts []*State) string {
	pre := stateAfter(b, step-1)
	post := stateAfter(b, step)
	db := faultdb.Restore(img)
	t := iavl.NewMutableTree(db, 0, !fast, logger, opts...)
	var lv int64
	var lerr error
	if p := func() (p string) {
		defer func() {
			if r := recover(); r != nil {
				p = fmt.Sprintf("panic: %v", r)
			}
		}()
		lv, lerr = t.Load()
		return ""
	}(); p != "" {
		return "Load() panics: " + p
	}
	if lerr != nil {
		return "Load() fails: " + lerr.Error()
	}
	defer t.Close()
	match := func(st *State) string { return matchState(t, lv, st, pal) }
	mpre, mpost := match(pre), match(post)
	// a version beyond the recovered latest version (e.g. the residue of the interrupted operation)
	// must not be loadable when it is asked for explicitly, on a handle that has not loaded anything yet
	beyond := func(st *State) string {
		h := iavl.NewMutableTree(faultdb.Restore(img), 0, !fast, logger, opts...)
		defer h.Close()
		for _, v := range []int64{st.Latest + 1, st.Latest + 2} {
			if _, err := h.LoadVersion(v); err == nil {
				return fmt.Sprintf("LoadVersion(%d) succeeds although the latest version is %d", v, st.Latest)
			}
		}
		return ""
	}
	if mpre == "" {
		mpre = beyond(pre)
	} else if mpost == "" {
		mpost = beyond(post)
	}
	switch {
	case mpre == "" && mpost == "":
		return "pre=post"
	case mpre == "":
		return "pre"
	case mpost == "":
		return "post"
	}
	for _, a := range alts {
		if match(a) == "" {
			return "alt"
		}
	}
	return fmt.Sprintf("neither the state before (%s) nor after (%s) the operation", mpre, mpost)
}

// State is the specification's durable state after a step.
type State struct {
	First, Latest int64
	Saved         map[int64]*model.Tree
}

// stateAfter replays the specification's records up to step i (-1: the empty store).
func stateAfter(b *model.Behaviour, i int) *State {
	st := &State{Saved: map[int64]*model.Tree{}}
	for j := 0; j <= i && j < len(b.Steps); j++ {
		s := b.Steps[j]
		if (s.Op == "save" || s.Op == "savecs") && !s.Ret.Err && !s.Ret.Noop {
			st.Saved[s.Ret.Ver] = s.Ret.Tree
		}
		if s.Op == "import" {
			st.Saved = map[int64]*model.Tree{s.Args.T: s.Ret.Tree}
		}
		st.First, st.Latest = s.First, s.Latest
		for v := range st.Saved {
			if v < st.First || v > st.Latest {
				delete(st.Saved, v)
			}
		}
	}
	return st
}

// SortedKinds summarises call kinds.
func SortedKinds(m map[string]int) []string {
	var out []string
	for k, n := range m {
		out = append(out, fmt.Sprintf("%s:%d", k, n))
	}
	sort.Strings(out)
	return out
}

func matchState(t *iavl.MutableTree, lv int64, st *State, pal *palette.Palette) string {
	h := hashref.Hasher{Key: pal.Key, Value: pal.Value}

	if lv != st.Latest {
		return fmt.Sprintf("latest %d != %d", lv, st.Latest)
	}
	av := t.AvailableVersions()
	var want []int
	if st.Latest > 0 {
		for v := st.First; v <= st.Latest; v++ {
			want = append(want, int(v))
		}
	}
	if fmt.Sprint(av) != fmt.Sprint(want) && !(len(av) == 0 && len(want) == 0) {
		return fmt.Sprintf("available %v != %v", av, want)
	}
	for v, tr := range st.Saved {
		it, err := t.GetImmutable(v)
		if err != nil {
			return fmt.Sprintf("version %d: %v", v, err)
		}
		if !bytes.Equal(it.Hash(), h.Hash(tr, v+1)) {
			return fmt.Sprintf("version %d: hash differs", v)
		}
		var got []string
		if _, err := it.Iterate(func(k, val []byte) bool { got = append(got, fmt.Sprintf("%x=%x", k, val)); return false }); err != nil {
			return fmt.Sprintf("version %d: iterate: %v", v, err)
		}
		var exp []string
		for _, l := range tr.Leaves() {
			exp = append(exp, fmt.Sprintf("%x=%x", pal.Key(l.K), pal.Value(l.V)))
		}
		if strings.Join(got, ";") != strings.Join(exp, ";") {
			return fmt.Sprintf("version %d: contents differ", v)
		}
		// every read path agrees: the indexed Get and the walk
		for _, l := range tr.Leaves() {
			val, err := it.Get(pal.Key(l.K))
			if err != nil || !bytes.Equal(val, pal.Value(l.V)) {
				return fmt.Sprintf("version %d: Get(%x) = %x, %v", v, pal.Key(l.K), val, err)
			}
		}
	}
	// the handle itself (no uncommitted changes): its iterator merges the persisted index with the
	// (empty) overlay, its Get goes through the index - both must show the latest version, and nothing
	// at all when no version exists
	latest := map[string]string{}
	if tr := st.Saved[st.Latest]; st.Latest > 0 && tr != nil {
		for _, l := range tr.Leaves() {
			latest[string(pal.Key(l.K))] = string(pal.Value(l.V))
		}
	}
	itr, err := t.Iterator(nil, nil, true)
	if err != nil {
		return "handle: Iterator: " + err.Error()
	}
	n := 0
	for ; itr.Valid(); itr.Next() {
		want, ok := latest[string(itr.Key())]
		if !ok || want != string(itr.Value()) {
			k, val := append([]byte(nil), itr.Key()...), append([]byte(nil), itr.Value()...)
			itr.Close()
			return fmt.Sprintf("handle: the iterator yields %x=%x, which the latest version (%d) does not have", k, val, st.Latest)
		}
		n++
	}
	err = itr.Error()
	itr.Close()
	if err != nil || n != len(latest) {
		return fmt.Sprintf("handle: the iterator yields %d pairs, the latest version (%d) has %d (%v)", n, st.Latest, len(latest), err)
	}
	for k := 1; k <= pal.K; k++ {
		val, err := t.Get(pal.Key(k))
		want, ok := latest[string(pal.Key(k))]
		if err != nil || (val != nil) != ok || (ok && string(val) != want) {
			return fmt.Sprintf("handle: Get(%x) = %x, %v; the latest version (%d) has %x (present %v)", pal.Key(k), val, err, st.Latest, want, ok)
		}
	}
	return ""
}

// MatchDetail opens the image and says why it does not match the state ("" if it does).
func MatchDetail(img map[string][]byte, st *State, pal *palette.Palette, fast bool) string {
	db := faultdb.Restore(img)
	t := iavl.NewMutableTree(db, 0, !fast, logger)
	lv, err := t.Load()
	if err != nil {
		return "Load: " + err.Error()
	}
	defer t.Close()
	return matchState(t, lv, st, pal)
}
