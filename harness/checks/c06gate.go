package checks

import (
	"bytes"
	"encoding/json"
	"fmt"
	"os"
	"path/filepath"
	"strings"
	"sync"
	"time"

	"github.com/cosmos/iavl"
	dbm "github.com/cosmos/iavl/db"

	"verif/harness/exec"
	"verif/harness/model"
	"verif/harness/palette"
	"verif/harness/tlcrun"
)

// Schedule replay at the granularity of storage reads (C06). IavlConc.tla makes a reader's fast-node
// lookup (cache, else disk, cache fill) one atomic step and lets readers of retained versions walk
// immutable nodes; TLC refutes ReadCommitted when that lookup is split (FastReadAtomic = FALSE).
// Here the same schedules are forced on the code: a reader is stopped inside its j-th storage read
// (before the read is performed, or after it with the answer held back), the writer then runs one
// whole operation (commit or deletion of other versions), the reader is released; the reader's answer
// and every later read of every retained version must equal the committed contents.

type gateJob struct {
	Property  string          `json:"property"`
	Kind      string          `json:"kind"`
	Behaviour json.RawMessage `json:"behaviour"`
	Summary   string          `json:"summary"`
	Step      int             `json:"step"`
	Reader    string          `json:"reader"` // "get" | "iter"
	Version   int64           `json:"version"`
	Key       int             `json:"key"`
	J         int             `json:"j"`
	After     bool            `json:"after"`
	Cold      bool            `json:"cold"`
	Cache     int             `json:"cache"`
	PalSeed   int64           `json:"palseed"`
	Msg       string          `json:"msg"`
}

type gateState struct {
	tree  *iavl.MutableTree
	gate  *exec.GateDB
	pal   *palette.Palette
	cache int
	iv    int64
	vers  map[int64]*model.Tree // committed versions as the specification printed them
	first int64
	last  int64
	pend  []*model.Step // writes since the last commit
}

func (g *gateState) open() error {
	if g.tree != nil {
		_ = g.tree.Close()
	}
	opts := []iavl.Option{iavl.FlushThresholdOption(100000)}
	if g.iv != 0 {
		opts = append(opts, iavl.InitialVersionOption(uint64(g.iv)))
	}
	g.tree = iavl.NewMutableTree(g.gate, g.cache, false, iavl.NewNopLogger(), opts...)
	_, err := g.tree.Load()
	return err
}

func (g *gateState) write(s *model.Step) {
	switch s.Op {
	case "set":
		_, _ = g.tree.Set(g.pal.Key(s.Args.K), g.pal.Value(s.Args.V))
	case "rm":
		_, _, _ = g.tree.Remove(g.pal.Key(s.Args.K))
	}
}

// apply executes step s without any concurrency and tracks the specification's state.
func (g *gateState) apply(s *model.Step) error {
	switch s.Op {
	case "set", "rm":
		g.write(s)
		g.pend = append(g.pend, s)
	case "rollback":
		g.tree.Rollback()
		g.pend = nil
	case "reopen":
		g.pend = nil
		if err := g.open(); err != nil {
			return err
		}
	case "save":
		_, _, err := g.tree.SaveVersion()
		if (err != nil) != s.Ret.Err {
			return fmt.Errorf("SaveVersion: error-ness differs from the specification (%v)", err)
		}
		g.pend = nil
	case "delto":
		err := g.tree.DeleteVersionsTo(s.Args.N)
		if (err != nil) != s.Ret.Err {
			return fmt.Errorf("DeleteVersionsTo(%d): error-ness differs from the specification (%v)", s.Args.N, err)
		}
	}
	g.track(s)
	return nil
}

func (g *gateState) track(s *model.Step) {
	if s.Op == "save" && !s.Ret.Err {
		g.vers[s.Ret.Ver] = s.Ret.Tree
	}
	g.first, g.last = s.First, s.Latest
	for v := range g.vers {
		if v < s.First || v > s.Latest {
			delete(g.vers, v)
		}
	}
}

func (g *gateState) want(ver int64, k int) []byte {
	t := g.vers[ver]
	if t == nil {
		return nil
	}
	if v, ok := t.Lookup(k); ok {
		return g.pal.Value(v)
	}
	return nil
}

// checkAll reads every retained version and the working handle.
func (g *gateState) checkAll(k int) string {
	for ver, t := range g.vers {
		it, err := g.tree.GetImmutable(ver)
		if err != nil {
			return fmt.Sprintf("GetImmutable(%d) of a retained version: %v", ver, err)
		}
		for kk := 1; kk <= k; kk++ {
			got, err := it.Get(g.pal.Key(kk))
			want := g.want(ver, kk)
			if err != nil || !bytes.Equal(got, want) || (got == nil) != (want == nil) {
				return fmt.Sprintf("afterwards version %d Get(key %d) = %x (%v), committed value %x", ver, kk, got, err, want)
			}
		}
		n := 0
		itr, err := it.Iterator(nil, nil, true)
		if err == nil {
			for ; itr.Valid(); itr.Next() {
				n++
			}
			err = itr.Error()
			itr.Close()
		}
		if err != nil || n != len(t.Leaves()) {
			return fmt.Sprintf("afterwards version %d iteration yields %d pairs, committed %d (%v)", ver, n, len(t.Leaves()), err)
		}
	}
	if g.last != 0 && len(g.pend) == 0 && g.tree.Version() == g.last {
		for kk := 1; kk <= k; kk++ {
			got, err := g.tree.Get(g.pal.Key(kk))
			want := g.want(g.last, kk)
			if err != nil || !bytes.Equal(got, want) || (got == nil) != (want == nil) {
				return fmt.Sprintf("afterwards the handle's Get(key %d) = %x (%v), latest committed value %x", kk, got, err, want)
			}
		}
	}
	return ""
}

// gateOne prepares the state before step i (optionally with cold caches), parks the reader at its
// j-th storage read and runs step i. It returns parked = false when the reader has fewer reads.
func gateOne(b *model.Behaviour, k int, job *gateJob) (parked bool, blocked bool, msg string) {
	g := &gateState{gate: exec.NewGateDB(dbm.NewMemDB()), pal: palette.New("single", k, job.PalSeed), cache: job.Cache, iv: b.Steps[0].IV, vers: map[int64]*model.Tree{}}
	if err := g.open(); err != nil {
		return false, false, "open: " + err.Error()
	}
	for x := 1; x < job.Step; x++ {
		if err := g.apply(b.Steps[x]); err != nil {
			return false, false, fmt.Sprintf("step %d (sequential): %v", x, err)
		}
	}
	if job.Cold {
		// new handle: cold node cache and fast-node cache; the uncommitted writes are applied again
		pend := g.pend
		if err := g.open(); err != nil {
			return false, false, "reopen: " + err.Error()
		}
		for _, s := range pend {
			g.write(s)
		}
	}
	s := b.Steps[job.Step]
	if g.vers[job.Version] == nil {
		return false, false, ""
	}
	it, err := g.tree.GetImmutable(job.Version)
	if err != nil {
		return false, false, fmt.Sprintf("GetImmutable(%d) of a retained version: %v", job.Version, err)
	}
	wantVal := g.want(job.Version, job.Key)
	leaves := g.vers[job.Version].Leaves()
	g.gate.Arm(job.J, job.After)
	var rmsg string
	var wg sync.WaitGroup
	rdone := make(chan struct{})
	wg.Add(1)
	go func() {
		defer wg.Done()
		defer close(rdone)
		defer func() {
			if p := recover(); p != nil {
				rmsg = fmt.Sprintf("reader panicked: %v", p)
			}
		}()
		switch job.Reader {
		case "get":
			got, err := it.Get(g.pal.Key(job.Key))
			want := wantVal
			if err != nil || !bytes.Equal(got, want) || (got == nil) != (want == nil) {
				rmsg = fmt.Sprintf("reader of version %d: Get(key %d) = %x (%v), committed value %x", job.Version, job.Key, got, err, want)
			}
		case "iter":
			n := 0
			itr, err := it.Iterator(nil, nil, true)
			if err == nil {
				for ; itr.Valid(); itr.Next() {
					if n < len(leaves) && (!bytes.Equal(itr.Key(), g.pal.Key(leaves[n].K)) || !bytes.Equal(itr.Value(), g.pal.Value(leaves[n].V))) {
						rmsg = fmt.Sprintf("reader of version %d: iteration pair %d differs from the committed contents", job.Version, n)
					}
					n++
				}
				err = itr.Error()
				itr.Close()
			}
			if err != nil || n != len(leaves) {
				rmsg = fmt.Sprintf("reader of version %d: iteration yields %d pairs, committed %d (%v)", job.Version, n, len(leaves), err)
			}
		}
	}()
	select {
	case <-g.gate.Parked:
		parked = true
	case <-rdone:
		g.gate.Disarm()
		wg.Wait()
		return false, false, rmsg
	case <-time.After(120 * time.Second):
		return false, false, "the reader neither reached its storage read nor returned within 120s"
	}
	// the writer runs the whole operation while the reader sits inside its storage read
	wdone := make(chan error, 1)
	go func() {
		defer func() {
			if p := recover(); p != nil {
				wdone <- fmt.Errorf("writer panicked: %v", p)
			}
		}()
		wdone <- g.apply(s)
	}()
	var werr error
	select {
	case werr = <-wdone:
	case <-time.After(40 * time.Millisecond):
		blocked = true // the library holds a lock across the read: the writer waits for the reader
	}
	g.gate.Release()
	wg.Wait()
	if blocked {
		select {
		case werr = <-wdone:
		case <-time.After(120 * time.Second):
			return true, true, "the writer did not return within 120s after the reader was released"
		}
	}
	if werr != nil {
		return true, blocked, werr.Error()
	}
	if rmsg != "" {
		return true, blocked, rmsg
	}
	return true, blocked, g.checkAll(k)
}

// parkWriterOne: the other direction - the WRITER is stopped at the yield point between the last change it
// puts into the batch and the commit (cold caches, default flush threshold: nothing is on disk yet), every key
// of the still-latest version is read, the writer commits, and then every version is read again. A reader that
// runs in that window must not leave anything behind that outlives the commit (e.g. a cached index entry of a
// key the commit removes).
func parkWriterOne(b *model.Behaviour, k int, job *gateJob) (reached bool, msg string) {
	g := &gateState{gate: exec.NewGateDB(dbm.NewMemDB()), pal: palette.New("single", k, job.PalSeed), cache: job.Cache, iv: b.Steps[0].IV, vers: map[int64]*model.Tree{}}
	if err := g.open(); err != nil {
		return false, "open: " + err.Error()
	}
	for x := 1; x < job.Step; x++ {
		if err := g.apply(b.Steps[x]); err != nil {
			return false, fmt.Sprintf("step %d (sequential): %v", x, err)
		}
	}
	pend := g.pend
	if err := g.open(); err != nil {
		return false, "reopen: " + err.Error()
	}
	for _, s := range pend {
		g.write(s)
	}
	last := g.last
	if last == 0 || g.vers[last] == nil {
		return false, ""
	}
	wants := make([][]byte, k+1)
	for kk := 1; kk <= k; kk++ {
		wants[kk] = g.want(last, kk)
	}
	at := make(chan struct{})
	resume := make(chan struct{})
	var once sync.Once
	iavl.VerifYield = func(p string) {
		if p == "save:before-commit" {
			once.Do(func() {
				at <- struct{}{}
				<-resume
			})
		}
	}
	defer func() { iavl.VerifYield = nil }()
	wdone := make(chan error, 1)
	go func() {
		defer func() {
			if p := recover(); p != nil {
				wdone <- fmt.Errorf("writer panicked: %v", p)
			}
		}()
		wdone <- g.apply(b.Steps[job.Step])
	}()
	var werr error
	select {
	case <-at:
		reached = true
	case werr = <-wdone:
		if werr != nil {
			return false, werr.Error()
		}
		return false, g.checkAll(k)
	case <-time.After(120 * time.Second):
		return false, "the writer neither reached the yield point before its commit nor returned within 120s"
	}
	it, err := g.tree.GetImmutable(last)
	if err != nil {
		msg = fmt.Sprintf("writer stopped before its commit: GetImmutable(%d) of the latest version: %v", last, err)
	} else {
		for kk := 1; kk <= k && msg == ""; kk++ {
			got, err := it.Get(g.pal.Key(kk))
			if err != nil || !bytes.Equal(got, wants[kk]) || (got == nil) != (wants[kk] == nil) {
				msg = fmt.Sprintf("writer stopped before its commit: version %d Get(key %d) = %x (%v), committed value %x", last, kk, got, err, wants[kk])
			}
		}
	}
	close(resume)
	select {
	case werr = <-wdone:
	case <-time.After(120 * time.Second):
		return true, "the writer did not return within 120s after it was resumed"
	}
	if werr != nil {
		return true, werr.Error()
	}
	if msg != "" {
		return true, msg
	}
	return true, g.checkAll(k)
}

// storageGateReplay enumerates (writer step, reader, storage read, before/after, cold/warm).
func storageGateReplay(id, tier string, seed int64, ev *Evidence) ([]string, error) {
	k := 4
	sim := SimSpec{Module: "MCIavl", Spec: "SpecSim", K: k, V: 2, IVs: "{0, 5}", D: 14, Workers: 4, Num: tierNum(tier, 2, 30),
		Classes: []string{"set", "set", "set", "set", "rmhit", "save", "save", "save", "deltook", "reopen"}, Invs: []string{"InvContents"}}
	behs, _, err := GenerateBehaviours(sim, seed+606)
	if err != nil {
		return nil, err
	}
	type res struct {
		jobs, parked, blocked int
		viols                 []gateJob
		err                   string
	}
	out := make([]res, len(behs))
	var wg sync.WaitGroup
	sem := make(chan struct{}, 14)
	for bi, b := range behs {
		wg.Add(1)
		sem <- struct{}{}
		go func(bi int, b *model.Behaviour) {
			defer wg.Done()
			defer func() { <-sem }()
			r := &out[bi]
			first, last := int64(0), int64(0)
			dirty := false
			for i := 1; i < len(b.Steps); i++ {
				s := b.Steps[i]
				isWriter := (s.Op == "save" && !s.Ret.Err && !s.Ret.Noop && dirty) || (s.Op == "delto" && !s.Ret.Err && s.First > first)
				if isWriter && last != 0 {
					// readers: the latest version (index path) and the oldest version the call does not delete
					vs := []int64{last}
					old := first
					if s.Op == "delto" {
						old = s.Args.N + 1
					}
					if old != last && old >= first {
						vs = append(vs, old)
					}
					for _, ver := range vs {
						for _, cold := range []bool{true, false} {
							for _, after := range []bool{false, true} {
								for key := 0; key <= k; key++ { // key 0 = iteration
									for j := 0; j < 12; j++ {
										job := gateJob{Property: id, Kind: "gate", Behaviour: json.RawMessage(b.Raw), Summary: b.Summary(), Step: i, Reader: "get", Version: ver, Key: key, J: j, After: after, Cold: cold,
											Cache: []int{0, 100}[(i+j)%2], PalSeed: seed}
										if key == 0 {
											job.Reader = "iter"
										}
										parked, blocked, msg := gateOne(b, k, &job)
										r.jobs++
										if blocked {
											r.blocked++
										}
										if msg != "" {
											job.Msg = msg
											r.viols = append(r.viols, job)
										}
										if !parked {
											break
										}
										r.parked++
									}
								}
							}
						}
					}
				}
				switch s.Op {
				case "set", "rm":
					dirty = true
				case "save", "rollback", "reopen":
					dirty = false
				}
				first, last = s.First, s.Latest
			}
		}(bi, b)
	}
	wg.Wait()
	// second phase, one at a time (the yield hook of the library is one package-level variable): the writer is
	// stopped before its commit while the still-latest version is read with cold caches
	writerParks := 0
	for bi, b := range behs {
		dirty := false
		for i := 1; i < len(b.Steps); i++ {
			s := b.Steps[i]
			if s.Op == "save" && !s.Ret.Err && !s.Ret.Noop && dirty && b.Steps[i-1].Latest != 0 {
				job := gateJob{Property: id, Kind: "gate", Behaviour: json.RawMessage(b.Raw), Summary: b.Summary(), Step: i, Reader: "parkwriter", Version: b.Steps[i-1].Latest,
					Cold: true, Cache: []int{0, 100}[i%2], PalSeed: seed}
				reached, msg := parkWriterOne(b, k, &job)
				out[bi].jobs++
				if reached {
					writerParks++
				}
				if msg != "" {
					job.Msg = msg
					out[bi].viols = append(out[bi].viols, job)
				}
			}
			switch s.Op {
			case "set", "rm":
				dirty = true
			case "save", "rollback", "reopen":
				dirty = false
			}
		}
	}
	var violations []string
	replayDir := filepath.Join(OutDir, "evidence", "replays")
	jobs, parked, blocked := 0, 0, 0
	for _, r := range out {
		jobs += r.jobs
		parked += r.parked
		blocked += r.blocked
		for _, v := range r.viols {
			_ = os.MkdirAll(replayDir, 0o755)
			path := filepath.Join(replayDir, fmt.Sprintf("%s-gate-%d-%d.json", id, seed, len(violations)))
			bts, _ := json.MarshalIndent(v, "", " ")
			_ = os.WriteFile(path, bts, 0o644)
			violations = append(violations, fmt.Sprintf("VIOLATION property=%s replay=%s", id, path))
			if len(violations) <= 5 {
				when := "before the read is performed"
				if v.After {
					when = "after the read, answer held back"
				}
				fmt.Printf("  reader (%s key %d, version %d, cold caches %v) stopped in storage read #%d (%s) while step %d (%s) ran: %s\n    behaviour: %s\n",
					v.Reader, v.Key, v.Version, v.Cold, v.J, when, v.Step, "writer", truncate(v.Msg, 300), truncate(v.Summary, 300))
			}
		}
	}
	ev.Coverage["writer_parked_before_commit"] = fmt.Sprintf("%d commits stopped at the yield point before the batch is written (cold caches), the latest version read in that window and every version afterwards", writerParks)
	ev.Coverage["storage_gate_schedules"] = fmt.Sprintf("%d behaviours, %d schedules tried, %d with the reader parked inside a storage read while the writer ran a whole commit/deletion (%d of them: the writer could not proceed because the library holds a lock across that read)", len(behs), jobs, parked, blocked)
	return violations, nil
}

// concVacuityGuard: TLC must refute each variant of IavlConc.tla that describes the code as found (or a
// split critical section); otherwise the concurrency model would accept anything.
func concVacuityGuard(ev *Evidence) error {
	type variant struct{ name, clone, publish, atomic, inv string }
	var notes []string
	for _, v := range []variant{
		{"Node.clone writes the child pointers of the shared node (as found)", "TRUE", "TRUE", "TRUE", "NoRace"},
		{"latest version published after the commit (as found)", "FALSE", "FALSE", "TRUE", "ReadCommitted"},
		{"lock released between the fast-node disk read and the cache fill", "FALSE", "TRUE", "FALSE", "ReadCommitted"},
	} {
		mc := concMc(2, v.clone, v.publish, v.atomic, "FALSE")
		r, err := tlcrun.Run(tlcrun.Opts{Module: mc.Module, CfgText: mc.CfgText, Workers: 8, Timeout: 10 * time.Minute})
		if err != nil {
			return err
		}
		if !strings.Contains(r.Violation, v.inv) {
			return fmt.Errorf("IavlConc.tla does not refute %s for the variant %q (TLC: %q): the concurrency model is vacuous", v.inv, v.name, r.Violation)
		}
		notes = append(notes, fmt.Sprintf("%s: %s refuted by TLC after %d states", v.name, v.inv, r.Generated))
	}
	ev.Coverage["model_variants_refuted"] = notes
	return nil
}

// ReplayGate re-runs one recorded schedule.
func ReplayGate(path string) (bool, int) {
	bts, err := os.ReadFile(path)
	if err != nil {
		return false, 2
	}
	var j gateJob
	if json.Unmarshal(bts, &j) != nil || j.Kind != "gate" {
		return false, 0
	}
	b, err := model.ParseBehaviour(string(j.Behaviour))
	if err != nil {
		fmt.Println("INCONCLUSIVE:", err)
		return true, 2
	}
	var msg string
	if j.Reader == "parkwriter" {
		_, msg = parkWriterOne(b, 4, &j)
	} else {
		_, _, msg = gateOne(b, 4, &j)
	}
	if msg != "" {
		fmt.Println(msg)
		fmt.Printf("VIOLATION property=%s replay=%s\n", j.Property, path)
		return true, 1
	}
	fmt.Println("replay passes on the current tree")
	return true, 0
}
