package checks

import (
	"encoding/json"
	"fmt"
	"math/rand"
	"os"
	"path/filepath"
	"regexp"
	"strconv"
	"strings"
	"sync"
	"time"

	"verif/harness/palette"
	"verif/harness/tlcrun"
	"verif/harness/tracegen"
)

// Trace validation (implementation -> specification): random histories executed on the real library
// by harness/tracegen are validated line by line by TLC against IavlTrace.tla, which reuses the
// actions of Iavl.tla. The driver knows which calls the contract allows, not what they must return.

const traceK = 12

func traceCfg(extra string) string {
	return fmt.Sprintf(`SPECIFICATION TraceSpec
CONSTANTS
  K = %d
  V = 3
  IVs = {0}
  D = 0
  MaxVer = 0
  MaxOps = 0
  Classes <- EmptyHist
  Record = TRUE
  HistBase <- EmptyHist
CONSTRAINT Mark
POSTCONDITION TraceAccepted
%sCHECK_DEADLOCK FALSE
`, traceK, extra)
}

var reHWM = regexp.MustCompile(`<<"HWM", (\d+), (\d+)>>`)

// validateLines lets TLC validate the lines; it returns the number of the first rejected line
// (1-based; 0 = all accepted) and the number of states TLC generated.
func validateLines(lines []string) (rejected int, generated int64, err error) {
	r, err := tlcrun.Run(tlcrun.Opts{Module: "IavlTrace", CfgText: traceCfg(""), Workers: 1, Timeout: 20 * time.Minute,
		Files: map[string]string{"trace.ndjson": strings.Join(lines, "\n") + "\n"}})
	if err != nil {
		return 0, 0, err
	}
	if r.TimedOut {
		return 0, 0, fmt.Errorf("trace validation timed out")
	}
	m := reHWM.FindStringSubmatch(r.Output)
	if m == nil {
		return 0, r.Generated, fmt.Errorf("trace validation printed no high-water mark:\n%s", lastLines(r.Output, 15))
	}
	hwm, _ := strconv.Atoi(m[1])
	total, _ := strconv.Atoi(m[2])
	if total != len(lines) {
		return 0, r.Generated, fmt.Errorf("TLC read %d lines, %d were written", total, len(lines))
	}
	if hwm == total+1 {
		return 0, r.Generated, nil
	}
	return hwm, r.Generated, nil
}

type traceReplay struct {
	Property string        `json:"property"`
	Kind     string        `json:"kind"`
	Opts     tracegen.Opts `json:"opts"`
	Line     int           `json:"line"`
	Msg      string        `json:"msg"`
	Context  []string      `json:"context,omitempty"`
}

func eventBrief(line string) string {
	var e tracegen.Event
	if json.Unmarshal([]byte(line), &e) != nil {
		return truncate(line, 120)
	}
	switch e.Op {
	case "set":
		return fmt.Sprintf("set %d=%d -> upd=%v", e.K, e.V, e.Upd)
	case "rm":
		return fmt.Sprintf("rm %d -> rem=%v val=%d", e.K, e.Rem, e.Val)
	case "save":
		return fmt.Sprintf("save -> ver=%d err=%v (%d nodes)", e.RVer, e.Err, len(e.Exp))
	case "load", "lvfo", "versioned":
		return fmt.Sprintf("%s %d -> err=%v exists=%v", e.Op, e.T, e.Err, e.Exists)
	case "delto":
		return fmt.Sprintf("delto %d -> err=%v", e.N, e.Err)
	case "open", "reopen":
		return fmt.Sprintf("%s fast=%v iv=%d", e.Op, e.Fast, e.IV)
	}
	return e.Op
}

// traceStage returns a PostRun step: num traces of length ln.
func traceStage(id string, seed int64, num, ln int) func(ev *Evidence) ([]string, []string, error) {
	return func(ev *Evidence) ([]string, []string, error) {
		rng := rand.New(rand.NewSource(seed + 4242))
		opts := make([]tracegen.Opts, num)
		for i := range opts {
			opts[i] = tracegen.Opts{K: traceK, Len: ln, Seed: rng.Int63(), Palette: palette.Names[rng.Intn(len(palette.Names))],
				Cache: []int{0, 3, 1000}[rng.Intn(3)], Flush: []int{150, 400, 100000, 100000}[rng.Intn(4)], EmptyFirstKey: rng.Intn(4) == 0}
		}
		traces := make([][]string, num)
		errs := make([]error, num)
		var wg sync.WaitGroup
		sem := make(chan struct{}, 14)
		for i := range opts {
			wg.Add(1)
			sem <- struct{}{}
			go func(i int) {
				defer wg.Done()
				defer func() { <-sem }()
				traces[i], errs[i] = tracegen.Generate(opts[i])
			}(i)
		}
		wg.Wait()
		var violations []string
		replayDir := filepath.Join(OutDir, "evidence", "replays")
		report := func(o tracegen.Opts, line int, msg string, ctx []string) {
			_ = os.MkdirAll(replayDir, 0o755)
			path := filepath.Join(replayDir, fmt.Sprintf("%s-trace-%d-%d.json", id, seed, len(violations)))
			b, _ := json.MarshalIndent(traceReplay{Property: id, Kind: "trace", Opts: o, Line: line, Msg: msg, Context: ctx}, "", " ")
			_ = os.WriteFile(path, b, 0o644)
			violations = append(violations, fmt.Sprintf("VIOLATION property=%s replay=%s", id, path))
			if len(violations) <= 5 {
				fmt.Printf("  trace (seed %d, palette %s, cache %d, flush %d) line %d: %s\n", o.Seed, o.Palette, o.Cache, o.Flush, line, truncate(msg, 400))
				for _, c := range ctx {
					fmt.Printf("      %s\n", c)
				}
			}
		}
		// chunks of whole traces, validated by parallel TLC processes
		type chunk struct{ idx []int }
		var chunks []chunk
		cur := chunk{}
		n := 0
		events := 0
		for i := range traces {
			if errs[i] != nil {
				report(opts[i], len(traces[i]), "the library failed on its own while the history was recorded: "+firstLine(errs[i].Error()), nil)
				continue
			}
			events += len(traces[i])
			cur.idx = append(cur.idx, i)
			n += len(traces[i])
			if n >= 4000 {
				chunks = append(chunks, cur)
				cur, n = chunk{}, 0
			}
		}
		if len(cur.idx) > 0 {
			chunks = append(chunks, cur)
		}
		var mu sync.Mutex
		var generated int64
		var firstErr error
		accepted := 0
		sem2 := make(chan struct{}, 6)
		for _, ch := range chunks {
			wg.Add(1)
			sem2 <- struct{}{}
			go func(idx []int) {
				defer wg.Done()
				defer func() { <-sem2 }()
				for len(idx) > 0 {
					var lines []string
					starts := []int{}
					for _, i := range idx {
						starts = append(starts, len(lines))
						lines = append(lines, traces[i]...)
					}
					rej, gen, err := validateLines(lines)
					mu.Lock()
					generated += gen
					if err != nil && firstErr == nil {
						firstErr = err
					}
					mu.Unlock()
					if err != nil {
						return
					}
					if rej == 0 {
						mu.Lock()
						accepted += len(idx)
						mu.Unlock()
						return
					}
					// the trace that contains the rejected line
					j := 0
					for j+1 < len(starts) && starts[j+1] < rej {
						j++
					}
					ti := idx[j]
					rel := rej - starts[j]
					var ctx []string
					for x := rel - 6; x < rel; x++ {
						if x >= 0 && x < len(traces[ti]) {
							mark := "   "
							if x == rel-1 {
								mark = ">> "
							}
							ctx = append(ctx, fmt.Sprintf("%s%d: %s", mark, x+1, eventBrief(traces[ti][x])))
						}
					}
					mu.Lock()
					accepted += j
					report(opts[ti], rel, "Iavl.tla has no step that takes the logged arguments to the logged results and observations: "+truncate(traces[ti][rel-1], 600), ctx)
					mu.Unlock()
					idx = idx[j+1:]
				}
			}(ch.idx)
		}
		wg.Wait()
		if firstErr != nil {
			return nil, nil, firstErr
		}
		// binding self-test: one corrupted observation must be rejected at exactly that line
		selfTest := "skipped (no accepted trace)"
		for i := range traces {
			if errs[i] == nil && len(traces[i]) > 20 && len(violations) == 0 {
				lines := append([]string(nil), traces[i]...)
				at := -1
				for x := len(lines) / 2; x < len(lines); x++ {
					var e map[string]interface{}
					if json.Unmarshal([]byte(lines[x]), &e) != nil {
						continue
					}
					if rd, ok := e["reads"].([]interface{}); ok && len(rd) > 0 && e["op"] != "versioned" {
						v := int(rd[0].(float64))
						if v == -1 {
							rd[0] = 0
						} else {
							rd[0] = -1
						}
						b, _ := json.Marshal(e)
						lines[x], at = string(b), x+1
						break
					}
				}
				if at < 0 {
					continue
				}
				rej, gen, err := validateLines(lines)
				generated += gen
				if err != nil {
					return nil, nil, err
				}
				if rej != at {
					return nil, nil, fmt.Errorf("binding self-test failed: a corrupted read at line %d was not rejected there (rejected line: %d)", at, rej)
				}
				selfTest = fmt.Sprintf("a corrupted read value at line %d of an accepted trace was rejected at that line", at)
				break
			}
		}
		ev.Coverage["trace_validation"] = map[string]interface{}{
			"rule":                "random histories of the real library (12 keys, random cache / flush threshold / palette / initial version / index mode; calls: Set, Set(nil), Remove, SaveVersion, SaveChangeSet, Rollback, close+reopen, export+import into an empty store (plain and compressed), LoadVersion, LoadVersionForOverwriting, DeleteVersionsTo within the documented contract; probes: reads and exports of retained and missing versions, range iteration in both directions, GetWithIndex, GetByIndex incl. ranks outside the tree) recorded with results and observations (version range, loaded and next version, every key's value, height, size, post-order export of every committed version with node versions) and validated line by line by TLC against IavlTrace.tla = the actions of Iavl.tla",
			"traces":              num,
			"events":              events,
			"traces_accepted":     accepted,
			"tlc_states":          generated,
			"binding_self_test":   selfTest,
			"events_per_trace":    ln,
			"rejections_reported": len(violations),
		}
		return violations, nil, nil
	}
}

// ReplayTrace regenerates one recorded history and validates it again.
func ReplayTrace(path string) (bool, int) {
	b, err := os.ReadFile(path)
	if err != nil {
		return false, 2
	}
	var rf traceReplay
	if json.Unmarshal(b, &rf) != nil || rf.Kind != "trace" {
		return false, 0
	}
	lines, gerr := tracegen.Generate(rf.Opts)
	if gerr != nil {
		fmt.Println("the library failed on its own:", firstLine(gerr.Error()))
		fmt.Printf("VIOLATION property=%s replay=%s\n", rf.Property, path)
		return true, 1
	}
	rej, _, err := validateLines(lines)
	if err != nil {
		fmt.Println("INCONCLUSIVE:", err)
		return true, 2
	}
	if rej != 0 {
		fmt.Printf("line %d rejected by IavlTrace.tla: %s\n", rej, truncate(lines[rej-1], 600))
		fmt.Printf("VIOLATION property=%s replay=%s\n", rf.Property, path)
		return true, 1
	}
	fmt.Println("replay passes on the current tree")
	return true, 0
}
