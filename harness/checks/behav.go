package checks

import (
	"encoding/json"
	"fmt"
	"math/rand"
	"os"
	"path/filepath"
	"sort"
	"strings"
	"sync"
	"time"

	"verif/harness/exec"
	"verif/harness/model"
	"verif/harness/palette"
	"verif/harness/tlcrun"
)

// SimSpec describes a TLC simulation run of the Iavl specification family.
type SimSpec struct {
	Module     string
	Spec       string // SPECIFICATION name
	K, V       int
	IVs        string
	D          int
	Num        int // behaviours per worker
	Workers    int
	Classes    []string
	Invs       []string
	ExtraConst string
	ExtraDefs  string // extra definitions for the generated wrapper module
}

func (s SimSpec) extra() string {
	if s.Module == "MCIavlStore" {
		return s.ExtraConst + "  FixLvfoLabel = TRUE\n  Exhaustive = FALSE\n"
	}
	return s.ExtraConst
}

func (s SimSpec) cfg() string {
	var sb strings.Builder
	fmt.Fprintf(&sb, "SPECIFICATION %s\nCONSTANTS\n  K = %d\n  V = %d\n  IVs = %s\n  D = %d\n  MaxVer = 99\n  MaxOps = 99\n  Record = TRUE\n", s.Spec, s.K, s.V, s.IVs, s.D)
	fmt.Fprintf(&sb, "  Classes <- GenClasses\n%s", s.extra())
	if len(s.Invs) > 0 {
		fmt.Fprintf(&sb, "INVARIANTS %s\n", strings.Join(s.Invs, " "))
	}
	sb.WriteString("CHECK_DEADLOCK FALSE\n")
	return sb.String()
}

// genModule writes a wrapper module that defines the class sequence.
func genModule(base string, classes []string) (name, text string) {
	name = "Gen" + base
	q := make([]string, len(classes))
	for i, c := range classes {
		q[i] = `"` + c + `"`
	}
	text = fmt.Sprintf("---- MODULE %s ----\nEXTENDS %s\nGenClasses == <<%s>>\n====\n", name, base, strings.Join(q, ", "))
	return
}

// McSpec describes a bounded exhaustive TLC run.
type McSpec struct {
	Module  string
	CfgText string
	Timeout time.Duration
	Workers int
}

// BehavCheck is the generic pipeline: model-check the specification on a bounded instance,
// let TLC generate behaviours, replay each on the real library under sampled configurations.
type BehavCheck struct {
	ID   string
	Tier string
	Seed int64
	Mc   []McSpec
	Sim  SimSpec
	// ShortNum > 0: a second batch of short behaviours (depth ShortD) per simulation process, so that
	// what needs a particular start of a history (empty store, first commit, first open) is hit often
	ShortNum, ShortD int
	Classes          exec.Classes
	Extra            func(e *exec.Executor, stepIdx int, s *model.Step) *exec.Violation
	ConfigsPer       int // configurations per behaviour
	Configure        func(rng *rand.Rand, c *exec.Config)
	Nontrivial       func(b *model.Behaviour) bool
	Rule             string
	Assume           []string
	// Classify maps a violation to a listed finding id ("" = none).
	Classify func(v *exec.Violation, b *model.Behaviour, c exec.Config) string
	// OwnFindings are the finding ids that belong to this property.
	OwnFindings map[string]bool
	Deadline    time.Duration
	ParkPoints  []string
	PostRun     func(ev *Evidence) (violations []string, known []string, err error)
	// Families: further generators whose behaviours are kept only if Select holds (at most Max)
	Families []Family
	// ExhD > 0: additionally EVERY history of ExhD calls from the empty store over ExhK keys (one configuration each)
	ExhD, ExhK int
}

// Family is a focused generator: TLC simulates Sim, the harness keeps the behaviours that contain
// the pattern Select describes.
type Family struct {
	Name   string
	Sim    SimSpec
	Select func(b *model.Behaviour) bool
	Max    int
}

var backends = []string{"mem", "mem", "mem", "mem", "mem", "prefix", "prefix", "level", "level", "prefixlevel"}
var caches = []int{0, 2, 1000}
var flushes = []int{150, 300, 1000, 100000, 100000}

// SampleConfig draws one point of the configuration matrix.
func SampleConfig(rng *rand.Rand, k int) exec.Config {
	return exec.Config{
		Cache:    caches[rng.Intn(len(caches))],
		Flush:    flushes[rng.Intn(len(flushes))],
		Sync:     rng.Intn(4) == 0,
		Backend:  backends[rng.Intn(len(backends))],
		IVCall:   rng.Intn(3) == 0,
		Compress: rng.Intn(2) == 0,
		Pal:      palette.New(palette.Names[rng.Intn(len(palette.Names))], k, rng.Int63()),
	}
}

type replayFile struct {
	Property  string          `json:"property"`
	Seed      int64           `json:"seed"`
	Config    cfgJSON         `json:"config"`
	Behaviour json.RawMessage `json:"behaviour"`
	Violation *exec.Violation `json:"violation,omitempty"`
	Hang      bool            `json:"hang,omitempty"`
	Panic     string          `json:"panic,omitempty"`
	Summary   string          `json:"summary"`
	Note      string          `json:"note,omitempty"`
	Checks    []string        `json:"checks,omitempty"`
	Finding   string          `json:"finding,omitempty"` // witness of a listed known finding
}

type cfgJSON struct {
	Cache    int    `json:"cache"`
	Flush    int    `json:"flush"`
	Sync     bool   `json:"sync"`
	Backend  string `json:"backend"`
	IVCall   bool   `json:"ivcall"`
	Compress bool   `json:"compress"`
	Palette  string `json:"palette"`
	PalSeed  int64  `json:"palseed"`
	K        int    `json:"k"`
	ExecSeed int64  `json:"execseed"`
	NoEmpty  bool   `json:"noempty,omitempty"` // the palette maps value 0 to a non-empty byte string
}

type result struct {
	b        *model.Behaviour
	cfg      exec.Config
	palSeed  int64
	execSeed int64
	out      *exec.Outcome
	stats    exec.Stats
}

func (c *BehavCheck) runOne(b *model.Behaviour, cfg exec.Config, execSeed int64) (*exec.Outcome, exec.Stats) {
	e := &exec.Executor{Cfg: cfg, Cls: c.Classes, Seed: execSeed, Extra: c.Extra, ParkPoints: c.ParkPoints}
	dl := c.Deadline
	if dl == 0 {
		dl = 20 * time.Second
	}
	out := e.Run(b, dl)
	return out, e.Stats
}

// Run executes the check and returns the process exit code.
func (c *BehavCheck) Run() int {
	start := time.Now()
	ev := &Evidence{PropertyID: c.ID, Tier: c.Tier, Seed: c.Seed, Coverage: map[string]interface{}{}}
	ev.Assumptions = append([]string{
		"SHA-256 is collision free; the ics23 verifier is correct (trusted third-party code)",
		"the 40-line hash preimage encoder of harness/hashref is correct (cross-checked against the library on every commit)",
		"keys and values matter only through their order/identity: behaviours over integer keys are mapped to byte strings by order-preserving palettes",
	}, c.Assume...)
	fail := func(code int, msg string) int {
		fmt.Println(msg)
		ev.Coverage["explanation"] = msg
		ev.Coverage["evaluations"] = 0
		ev.Coverage["distinct_nontrivial"] = 0
		_ = WriteEvidence(ev, start)
		return code
	}
	// 1. bounded exhaustive model checking of the specification itself
	var states, transitions int64
	mcDone := true
	var mcNotes []string
	for _, mc := range c.Mc {
		r, err := tlcrun.Run(tlcrun.Opts{Module: mc.Module, CfgText: mc.CfgText, Workers: mc.Workers, Timeout: mc.Timeout})
		if err != nil {
			return fail(2, "INCONCLUSIVE: TLC model checking failed: "+err.Error())
		}
		if r.Violation != "" {
			// a violated design invariant is a defect of the specification, not of the code
			return fail(2, "INCONCLUSIVE: TLC reports a violated invariant on the specification: "+r.Violation+"\n"+lastLines(r.Output, 30))
		}
		states += r.Distinct
		transitions += r.Generated
		mcDone = mcDone && r.Finished
		mcNotes = append(mcNotes, fmt.Sprintf("%s: %d distinct states, %d transitions, depth %d, %.1fs", mc.Module, r.Distinct, r.Generated, r.Depth, r.Wall.Seconds()))
	}
	if os.Getenv("VERIF_MC_ONLY") != "" { // development: measure the model-checking stage only
		for _, n := range mcNotes {
			fmt.Println("MC", n)
		}
		return 0
	}
	// 2. TLC generates behaviours
	behs, simGenerated, err := GenerateBehaviours(c.Sim, c.Seed)
	if err != nil {
		return fail(2, "INCONCLUSIVE: "+err.Error())
	}
	transitions += simGenerated
	if c.ShortNum > 0 {
		short := c.Sim
		short.Num, short.D = c.ShortNum, c.ShortD
		sb, sg, err := GenerateBehaviours(short, c.Seed+7777)
		if err != nil {
			return fail(2, "INCONCLUSIVE: "+err.Error())
		}
		transitions += sg
		behs = append(behs, sb...)
	}
	famNotes := map[string]string{}
	for fi, f := range c.Families {
		fb, fg, err := GenerateBehaviours(f.Sim, c.Seed+9000+int64(fi))
		if err != nil {
			return fail(2, "INCONCLUSIVE: "+err.Error())
		}
		transitions += fg
		kept := 0
		for _, b := range fb {
			if kept < f.Max && f.Select(b) {
				behs = append(behs, b)
				kept++
			}
		}
		famNotes[f.Name] = fmt.Sprintf("%d of %d generated behaviours contain the pattern, %d used", countIf(fb, f.Select), len(fb), kept)
	}
	var exh []*model.Behaviour
	if c.ExhD > 0 {
		eb, eg, err := GenerateExhaustive(c.ExhK, c.ExhD)
		if err != nil {
			return fail(2, "INCONCLUSIVE: "+err.Error())
		}
		transitions += eg
		exh = eb
	}
	// 3. replay
	rng := rand.New(rand.NewSource(c.Seed))
	type job struct {
		b        *model.Behaviour
		cfg      exec.Config
		palSeed  int64
		execSeed int64
	}
	var jobs []job
	per := c.ConfigsPer
	if per <= 0 {
		per = 1
	}
	for _, b := range behs {
		for j := 0; j < per; j++ {
			cfg := SampleConfig(rng, c.Sim.K)
			ps := rng.Int63()
			cfg.Pal = palette.New(cfg.Pal.Name, c.Sim.K, ps)
			if c.Configure != nil {
				c.Configure(rng, &cfg)
			}
			jobs = append(jobs, job{b, cfg, ps, rng.Int63()})
		}
	}
	for _, b := range exh {
		cfg := SampleConfig(rng, c.Sim.K)
		ps := rng.Int63()
		cfg.Pal = palette.New(cfg.Pal.Name, c.Sim.K, ps)
		cfg.Backend = "mem" // thousands of tiny histories: no directories
		if c.Configure != nil {
			c.Configure(rng, &cfg)
		}
		jobs = append(jobs, job{b, cfg, ps, rng.Int63()})
	}
	if len(exh) > 0 {
		famNotes["exhaustive-short-histories"] = fmt.Sprintf("every history of %d calls from the empty store over %d keys and 2 values (SaveChangeSet excepted): %d behaviours, one sampled configuration each", c.ExhD, c.ExhK, len(exh))
	}
	results := make([]result, len(jobs))
	var wg sync.WaitGroup
	par := 14
	if len(c.ParkPoints) > 0 {
		par = 1 // the yield hook of the library is one package-level variable
	}
	sem := make(chan struct{}, par)
	for i := range jobs {
		wg.Add(1)
		sem <- struct{}{}
		go func(i int) {
			defer wg.Done()
			defer func() { <-sem }()
			j := jobs[i]
			out, st := c.runOne(j.b, j.cfg, j.execSeed)
			results[i] = result{j.b, j.cfg, j.palSeed, j.execSeed, out, st}
		}(i)
	}
	wg.Wait()
	// a replay that stopped making progress is run once more, alone and with a threefold patience: only
	// a hang that repeats is reported
	hangsConfirmed := 0
	for i := range results {
		if results[i].out != nil && results[i].out.Hang {
			j := jobs[i]
			save := c.Deadline
			if c.Deadline == 0 {
				c.Deadline = 20 * time.Second
			}
			c.Deadline *= 3
			out, st := c.runOne(j.b, j.cfg, j.execSeed)
			c.Deadline = save
			results[i] = result{j.b, j.cfg, j.palSeed, j.execSeed, out, st}
			if out.Hang {
				hangsConfirmed++
			}
		}
	}
	// 4. verdicts
	known, err := LoadFindings()
	if err != nil {
		return fail(2, "INCONCLUSIVE: known_findings.json: "+err.Error())
	}
	var steps int
	var observations int64
	opCount := map[string]int{}
	nontrivial := 0
	truncated := map[string]int{}
	toleratedObs := map[string]int{}
	knownSeen := map[string]string{}
	var violations []string
	replayDir := filepath.Join(OutDir, "evidence", "replays")
	if old, _ := filepath.Glob(filepath.Join(replayDir, c.ID+"-*.json")); len(old) > 0 {
		for _, f := range old {
			_ = os.Remove(f)
		}
	}
	for idx, r := range results {
		steps += r.stats.Steps
		observations += r.stats.Observations
		for fid, n := range r.stats.Known {
			if f, ok := known[fid]; ok && f.Status == "known" {
				toleratedObs[fid] += n
			} else {
				// the finding is not listed (any more): the observation is a violation
				r.out.Violation = &exec.Violation{Class: "finding", Step: -1, Msg: "observation matching signature " + fid + " which is not listed as a known finding", Expected: "property-level answer", Observed: r.stats.KnownEx[fid]}
			}
		}
		var v *exec.Violation
		if r.out.Violation != nil {
			v = r.out.Violation
		} else if r.out.Panic != "" {
			v = &exec.Violation{Class: "panic", Step: r.out.StepsDone, Msg: "the library panicked", Expected: "no panic", Observed: firstLine(r.out.Panic)}
		} else if r.out.Hang {
			v = &exec.Violation{Class: "hang", Step: r.out.StepsDone, Msg: "a call did not return within the deadline", Expected: "return", Observed: "hang"}
		}
		if v == nil {
			continue
		}
		if v.Step+1 < len(r.b.Steps) && v.Step+1 >= 0 && (v.Class == "hang" || v.Class == "panic") {
			v.Op = r.b.Steps[v.Step].Op
			if v.Step < len(r.b.Steps) {
				v.Op = r.b.Steps[minInt(v.Step, len(r.b.Steps)-1)].Op
			}
		}
		fid := ""
		if c.Classify != nil {
			fid = c.Classify(v, r.b, r.cfg)
		}
		if f, ok := known[fid]; ok && fid != "" && f.Status == "known" {
			if c.OwnFindings[fid] {
				if _, dup := knownSeen[fid]; !dup {
					knownSeen[fid] = fmt.Sprintf("%s (e.g. %s)", f.Signature, v.Error())
				}
			}
			truncated[fid]++
			continue
		}
		// a violation that no listed finding explains
		_ = os.MkdirAll(replayDir, 0o755)
		path := filepath.Join(replayDir, fmt.Sprintf("%s-%d-%d.json", c.ID, c.Seed, idx))
		rf := replayFile{Property: c.ID, Seed: c.Seed, Behaviour: json.RawMessage(r.b.Raw), Violation: v, Hang: r.out.Hang, Panic: r.out.Panic, Summary: r.b.Summary(),
			Config: cfgJSON{r.cfg.Cache, r.cfg.Flush, r.cfg.Sync, r.cfg.Backend, r.cfg.IVCall, r.cfg.Compress, r.cfg.Pal.Name, r.palSeed, c.Sim.K, r.execSeed, r.cfg.Pal.NoEmpty}}
		bts, _ := json.MarshalIndent(rf, "", " ")
		_ = os.WriteFile(path, bts, 0o644)
		violations = append(violations, fmt.Sprintf("VIOLATION property=%s replay=%s", c.ID, path))
		if len(violations) <= 5 {
			fmt.Printf("  %s\n  config: %s\n  behaviour: %s\n", v.Error(), r.cfg, truncate(r.b.Summary(), 600))
		}
	}
	// regression witnesses of repaired defects: must pass on the repaired tree, are reported again if the defect returns
	wfiles, _ := filepath.Glob(filepath.Join(VerifDir, "findings", "*.json"))
	sort.Strings(wfiles)
	witnesses := 0
	for _, wf := range wfiles {
		bts, err := os.ReadFile(wf)
		if err != nil {
			continue
		}
		var rf replayFile
		if json.Unmarshal(bts, &rf) != nil {
			continue
		}
		mine := false
		for _, id := range rf.Checks {
			mine = mine || id == c.ID
		}
		if rf.Finding != "" && c.OwnFindings[rf.Finding] {
			// the committed witness of a listed finding: KNOWN-FINDING is printed iff it still reproduces
			wb, err := model.ParseBehaviour(string(rf.Behaviour))
			if err != nil {
				return fail(2, "INCONCLUSIVE: witness "+wf+": "+err.Error())
			}
			wcfg := exec.Config{Cache: rf.Config.Cache, Flush: rf.Config.Flush, Sync: rf.Config.Sync, Backend: rf.Config.Backend, IVCall: rf.Config.IVCall,
				Compress: rf.Config.Compress, Pal: palette.New(rf.Config.Palette, rf.Config.K, rf.Config.PalSeed)}
			if c.Configure != nil {
				c.Configure(rand.New(rand.NewSource(1)), &wcfg)
				wcfg.Flush, wcfg.Cache = rf.Config.Flush, rf.Config.Cache // what the finding needs
			}
			out, st := c.runOne(wb, wcfg, rf.Config.ExecSeed)
			witnesses++
			f, listed := known[rf.Finding]
			viaClassify := out.Violation != nil && c.Classify != nil && c.Classify(out.Violation, wb, wcfg) == rf.Finding
			if listed && f.Status == "known" && viaClassify {
				knownSeen[rf.Finding] = fmt.Sprintf("%s (witness %s: %s)", f.Signature, filepath.Base(wf), truncate(out.Violation.Error(), 300))
			} else if listed && f.Status == "known" && st.Known[rf.Finding] > 0 && out.Violation == nil && !out.Hang && out.Panic == "" {
				knownSeen[rf.Finding] = fmt.Sprintf("%s (witness %s: %s)", f.Signature, filepath.Base(wf), truncate(st.KnownEx[rf.Finding], 300))
			} else if out.Violation != nil {
				fmt.Printf("  witness %s of finding %s: %s\n", wf, rf.Finding, out.Violation.Error())
				violations = append(violations, fmt.Sprintf("VIOLATION property=%s replay=%s", c.ID, wf))
			} else {
				fmt.Printf("NOTE: listed finding %s does not reproduce on its witness %s any more\n", rf.Finding, filepath.Base(wf))
			}
			continue
		}
		if !mine {
			continue
		}
		wb, err := model.ParseBehaviour(string(rf.Behaviour))
		if err != nil {
			return fail(2, "INCONCLUSIVE: witness "+wf+": "+err.Error())
		}
		wcfg := exec.Config{Cache: rf.Config.Cache, Flush: rf.Config.Flush, Sync: rf.Config.Sync, Backend: rf.Config.Backend, IVCall: rf.Config.IVCall,
			Compress: rf.Config.Compress, Pal: palette.New(rf.Config.Palette, rf.Config.K, rf.Config.PalSeed)}
		if c.Configure != nil {
			c.Configure(rand.New(rand.NewSource(1)), &wcfg)
		}
		out, st := c.runOne(wb, wcfg, rf.Config.ExecSeed)
		witnesses++
		steps += st.Steps
		observations += st.Observations
		if out.Violation != nil || out.Hang || out.Panic != "" {
			msg := "hang/panic"
			if out.Violation != nil {
				msg = out.Violation.Error()
			}
			fid := ""
			if c.Classify != nil && out.Violation != nil {
				fid = c.Classify(out.Violation, wb, wcfg)
			}
			if f, ok := known[fid]; ok && fid != "" && f.Status == "known" {
				continue
			}
			fmt.Printf("  regression witness %s fails again: %s\n", wf, msg)
			violations = append(violations, fmt.Sprintf("VIOLATION property=%s replay=%s", c.ID, wf))
		}
	}
	ev.Coverage["regression_witnesses_replayed"] = witnesses
	distinct := map[string]bool{}
	for _, b := range behs {
		for _, s := range b.Steps {
			opCount[s.Op]++
		}
		if c.Nontrivial == nil || c.Nontrivial(b) {
			distinct[b.Summary()] = true
		}
	}
	nontrivial = len(distinct)
	var samples []interface{}
	for i := 0; i < len(behs) && i < 3; i++ {
		samples = append(samples, map[string]interface{}{"behaviour": behs[i].Summary(), "config": results[i*per].cfg.String()})
	}
	ev.Coverage["states"] = states
	ev.Coverage["transitions"] = transitions
	ev.Coverage["traces_validated_against_impl"] = len(results)
	ev.Coverage["behaviours_generated_by_tlc"] = len(behs)
	ev.Coverage["samples"] = samples
	ev.Coverage["evaluations"] = len(results)
	ev.Coverage["distinct_nontrivial"] = nontrivial
	ev.Coverage["rule"] = c.Rule
	if len(famNotes) > 0 {
		ev.Coverage["focused_families"] = famNotes
	}
	ev.Coverage["exhaustive"] = false
	ev.Coverage["model_checking_exhaustive_on_bounded_instance"] = mcDone
	ev.Coverage["model_checking_runs"] = mcNotes
	ev.Coverage["steps_replayed"] = steps
	ev.Coverage["observations_compared"] = observations
	ev.Coverage["action_counts"] = opCount
	ev.Coverage["truncated_by_finding"] = truncated
	ev.Coverage["observations_explained_by_listed_finding"] = toleratedObs
	cfgCount := map[string]int{}
	for _, j := range jobs {
		cfgCount["palette "+j.cfg.Pal.Name]++
		cfgCount["backend "+j.cfg.Backend]++
		cfgCount[fmt.Sprintf("cache %d", j.cfg.Cache)]++
		cfgCount[fmt.Sprintf("flush %d", j.cfg.Flush)]++
	}
	ev.Coverage["configurations_replayed"] = cfgCount
	ev.Coverage["simulation"] = fmt.Sprintf("tlc -simulate num=%d x %d workers, depth %d, K=%d V=%d IVs=%s, seed %d", c.Sim.Num, c.Sim.Workers, c.Sim.D, c.Sim.K, c.Sim.V, c.Sim.IVs, c.Seed)
	ev.Violations = len(violations)
	var extraKnown []string
	if c.PostRun != nil {
		vs, kn, err := c.PostRun(ev)
		if err != nil {
			return fail(2, "INCONCLUSIVE: "+err.Error())
		}
		violations = append(violations, vs...)
		extraKnown = kn
		ev.Violations = len(violations)
	}
	// vacuity guard: the actions the property is about must have occurred
	var ids []string
	for id := range knownSeen {
		ids = append(ids, id)
	}
	sort.Strings(ids)
	for _, id := range ids {
		fmt.Printf("KNOWN-FINDING: property=%s %s %s\n", c.ID, id, knownSeen[id])
	}
	for _, l := range extraKnown {
		fmt.Println(l)
	}
	if err := WriteEvidence(ev, start); err != nil {
		fmt.Println("INCONCLUSIVE: cannot write evidence:", err)
		return 2
	}
	if len(violations) > 0 {
		for _, l := range violations {
			fmt.Println(l)
		}
		return 1
	}
	fmt.Printf("OK property=%s tier=%s seed=%d: %d behaviours x %d configurations replayed (%d steps, %d observations), spec: %d states / %d transitions, %.0fs\n",
		c.ID, c.Tier, c.Seed, len(behs), per, steps, observations, states, transitions, time.Since(start).Seconds())
	return 0
}

// GenerateBehaviours runs several single-worker TLC simulations (different seeds: within one process
// all workers draw the same sequence of action classes) and parses the behaviours they print.
func GenerateBehaviours(sim SimSpec, seed int64) ([]*model.Behaviour, int64, error) {
	modName, modText := genModule(sim.Module, sim.Classes)
	if sim.ExtraDefs != "" {
		modText = strings.Replace(modText, "====", sim.ExtraDefs+"\n====", 1)
	}
	procs := sim.Workers
	if procs <= 0 {
		procs = 8
	}
	srs := make([]*tlcrun.Result, procs)
	errs := make([]error, procs)
	var swg sync.WaitGroup
	for pi := 0; pi < procs; pi++ {
		swg.Add(1)
		go func(pi int) {
			defer swg.Done()
			srs[pi], errs[pi] = tlcrun.Run(tlcrun.Opts{Module: modName, Files: map[string]string{modName + ".tla": modText}, CfgText: sim.cfg(), Workers: 1,
				Simulate: fmt.Sprintf("num=%d", sim.Num), Depth: sim.D + 3, Seed: seed*1000 + int64(pi), Tag: "TRACE", Timeout: 20 * time.Minute, JavaOpts: "-Xmx3g"})
		}(pi)
	}
	swg.Wait()
	var generated int64
	var lines []string
	for pi := 0; pi < procs; pi++ {
		if errs[pi] != nil {
			return nil, 0, fmt.Errorf("TLC simulation failed: %v", errs[pi])
		}
		if srs[pi].Violation != "" {
			return nil, 0, fmt.Errorf("TLC reports a violated invariant during simulation: %s\n%s", srs[pi].Violation, lastLines(srs[pi].Output, 30))
		}
		generated += srs[pi].Generated
		lines = append(lines, srs[pi].Lines...)
	}
	var behs []*model.Behaviour
	seen := map[string]bool{}
	for _, line := range lines {
		js, ok := model.ExtractJSON(line, "TRACE")
		if !ok {
			return nil, 0, fmt.Errorf("unparsable TRACE line from TLC")
		}
		if seen[js] {
			continue
		}
		seen[js] = true
		b, err := model.ParseBehaviour(js)
		if err != nil {
			return nil, 0, err
		}
		behs = append(behs, b)
	}
	if len(behs) == 0 {
		return nil, 0, fmt.Errorf("TLC produced no behaviour")
	}
	return behs, generated, nil
}

// GenerateExhaustive lets TLC enumerate EVERY history of d calls from the empty store over k keys and
// two values (SpecExh of Iavl.tla: breadth-first search with the history in the state, so that each
// history is a state of its own and is printed when complete).
func GenerateExhaustive(k, d int) ([]*model.Behaviour, int64, error) {
	cfg := fmt.Sprintf("SPECIFICATION SpecExh\nCONSTANTS\n  K = %d\n  V = 2\n  IVs = {0}\n  D = %d\n  MaxVer = 99\n  MaxOps = 99\n  Record = TRUE\n  Classes <- SimClasses\nINVARIANTS InvContents\nCHECK_DEADLOCK FALSE\n", k, d)
	r, err := tlcrun.Run(tlcrun.Opts{Module: "MCIavl", CfgText: cfg, Workers: 8, Tag: "TRACE", Timeout: 60 * time.Minute, JavaOpts: "-Xmx6g"})
	if err != nil {
		return nil, 0, fmt.Errorf("TLC enumeration failed: %v", err)
	}
	if r.Violation != "" {
		return nil, 0, fmt.Errorf("TLC reports a violated invariant during the enumeration: %s\n%s", r.Violation, lastLines(r.Output, 30))
	}
	if !r.Finished {
		return nil, 0, fmt.Errorf("TLC did not finish the enumeration")
	}
	var behs []*model.Behaviour
	for _, line := range r.Lines {
		js, ok := model.ExtractJSON(line, "TRACE")
		if !ok {
			return nil, 0, fmt.Errorf("unparsable TRACE line from TLC")
		}
		b, err := model.ParseBehaviour(js)
		if err != nil {
			return nil, 0, err
		}
		behs = append(behs, b)
	}
	return behs, r.Generated, nil
}

// RunMc model-checks the bounded instances.
func RunMc(mcs []McSpec) (states, transitions int64, done bool, notes []string, err error) {
	done = true
	for _, mc := range mcs {
		r, e := tlcrun.Run(tlcrun.Opts{Module: mc.Module, CfgText: mc.CfgText, Workers: mc.Workers, Timeout: mc.Timeout})
		if e != nil {
			return 0, 0, false, nil, fmt.Errorf("TLC model checking failed: %v", e)
		}
		if r.Violation != "" {
			return 0, 0, false, nil, fmt.Errorf("TLC reports a violated invariant on the specification: %s\n%s", r.Violation, lastLines(r.Output, 30))
		}
		states += r.Distinct
		transitions += r.Generated
		done = done && r.Finished
		notes = append(notes, fmt.Sprintf("%s: %d distinct states, %d transitions, depth %d, %.1fs", mc.Module, r.Distinct, r.Generated, r.Depth, r.Wall.Seconds()))
	}
	return
}

func minInt(a, b int) int {
	if a < b {
		return a
	}
	return b
}

func firstLine(s string) string {
	if i := strings.IndexByte(s, '\n'); i >= 0 {
		return s[:i]
	}
	return s
}

func lastLines(s string, n int) string {
	ls := strings.Split(strings.TrimRight(s, "\n"), "\n")
	if len(ls) > n {
		ls = ls[len(ls)-n:]
	}
	return strings.Join(ls, "\n")
}

func truncate(s string, n int) string {
	if len(s) > n {
		return s[:n] + "..."
	}
	return s
}

// Replay re-executes a replay file on the current /repo.
func (c *BehavCheck) Replay(path string) int {
	bts, err := os.ReadFile(path)
	if err != nil {
		fmt.Println("INCONCLUSIVE:", err)
		return 2
	}
	var rf replayFile
	if err := json.Unmarshal(bts, &rf); err != nil {
		fmt.Println("INCONCLUSIVE:", err)
		return 2
	}
	b, err := model.ParseBehaviour(string(rf.Behaviour))
	if err != nil {
		fmt.Println("INCONCLUSIVE:", err)
		return 2
	}
	cfg := exec.Config{Cache: rf.Config.Cache, Flush: rf.Config.Flush, Sync: rf.Config.Sync, Backend: rf.Config.Backend, IVCall: rf.Config.IVCall,
		Compress: rf.Config.Compress, Pal: palette.New(rf.Config.Palette, rf.Config.K, rf.Config.PalSeed)}
	// checks whose oracle cannot handle empty values (C03, C04, C16) replay with the same value mapping
	if rf.Config.NoEmpty || c.ID == "C03" || c.ID == "C04" || c.ID == "C16" {
		cfg.Pal.WithoutEmptyValue()
	}
	out, _ := c.runOne(b, cfg, rf.Config.ExecSeed)
	switch {
	case out.Violation != nil:
		fmt.Println(out.Violation.Error())
	case out.Panic != "":
		fmt.Println("panic:", out.Panic)
	case out.Hang:
		fmt.Println("hang after step", out.StepsDone)
	default:
		fmt.Println("replay passes on the current tree")
		return 0
	}
	fmt.Printf("VIOLATION property=%s replay=%s\n", c.ID, path)
	return 1
}
