package checks

import (
	"bytes"
	"context"
	"encoding/json"
	"fmt"
	"math/rand"
	"os"
	osexec "os/exec"
	"path/filepath"
	"strings"
	"sync"
	"sync/atomic"
	"time"

	"verif/harness/fault"
	"verif/harness/faultdb"
	"verif/harness/model"
	"verif/harness/palette"
	"verif/harness/tlcrun"
)

type faultEvent struct {
	Kind      string `json:"kind"`
	Op        string `json:"op"`
	Writer    bool   `json:"writer"`
	Ret       string `json:"ret"`
	Durable   string `json:"durable"`
	Recovered string `json:"recovered"`
	Retry     string `json:"retry"`
	N         int    `json:"n"`
}

type faultViolation struct {
	Behaviour json.RawMessage `json:"behaviour"`
	Summary   string          `json:"summary"`
	Palette   string          `json:"palette"`
	PalSeed   int64           `json:"palseed"`
	K         int             `json:"k"`
	Cache     int             `json:"cache"`
	Flush     int             `json:"flush"`
	Sync      bool            `json:"sync,omitempty"`
	Persist   bool            `json:"persist,omitempty"`
	Step      int             `json:"step"`
	Op        string          `json:"op"`
	FailAt    int             `json:"fail_at"`
	CallKind  string          `json:"call_kind"`
	Msg       string          `json:"msg"`
	Property  string          `json:"property"`
	Kind      string          `json:"kind"`
	Finding   string          `json:"finding,omitempty"`
}

func opClass(name string) string {
	if i := strings.IndexAny(name, "#@("); i >= 0 {
		return name[:i]
	}
	return name
}

// faultOne enumerates every storage-call fault position of one behaviour.
func faultOne(b *model.Behaviour, pal *palette.Palette, palName string, palSeed int64, k, cache, flush int, sync bool) (events map[string]*faultEvent, viols []faultViolation, positions int, kinds map[string]int) {
	events = map[string]*faultEvent{}
	kinds = map[string]int{}
	base := &fault.Runner{B: b, Pal: pal, Cache: cache, Flush: flush, Sync: sync, Probe: true}
	base.Run(-1, -1)
	ref := append([]fault.Op(nil), base.Ops...)
	refKinds := append([]string(nil), base.FDB.Kinds...)
	mk := func(step int, op string, failAt int, msg string) faultViolation {
		ck := ""
		if failAt >= 0 && failAt < len(refKinds) {
			ck = refKinds[failAt]
		}
		return faultViolation{Behaviour: json.RawMessage(b.Raw), Summary: b.Summary(), Palette: palName, PalSeed: palSeed, K: k, Cache: cache, Flush: flush, Sync: sync,
			Step: step, Op: op, FailAt: failAt, CallKind: ck, Msg: msg, Kind: "fault"}
	}
	for _, o := range ref {
		if o.Panic != "" {
			viols = append(viols, mk(o.Step, o.Name, -1, "panic without any fault: "+firstLine(o.Panic)))
			return
		}
	}
	for oi, o := range ref {
		for jj := o.C0; jj < 2*o.C1-o.C0; jj++ {
			// second half of the range: the same position with a persistent failure (every later call of the
			// operation fails too) - a sampled multi-fault sequence
			j, persist := jj, false
			if jj >= o.C1 {
				j, persist = jj-(o.C1-o.C0), true
				if !multiFault || (j+oi)%multiEvery != 0 {
					continue
				}
			}
			positions++
			kinds[refKinds[j]]++
			add := func(v faultViolation) {
				v.Persist = persist
				if persist {
					v.Msg = "[every storage call from that one on fails] " + v.Msg
				}
				viols = append(viols, v)
			}
			r := &fault.Runner{B: b, Pal: pal, Cache: cache, Flush: flush, Sync: sync, Persist: persist, Probe: true}
			r.Run(j, oi+1)
			if len(r.Ops) != oi+1 || !r.FDB.Fired {
				// the run did not reach the same call: not deterministic, no verdict
				continue
			}
			same := true
			for x := 0; x < oi; x++ {
				if r.Ops[x].Outcome != ref[x].Outcome {
					same = false
				}
			}
			if !same {
				continue
			}
			got := r.Ops[oi]
			ev := faultEvent{Kind: "fault", Op: opClass(o.Name), Writer: o.Writer}
			if persist {
				atomic.AddInt64(&multiPositions, 1)
			}
			switch {
			case got.Panic != "":
				add(mk(o.Step, o.Name, j, "panic instead of an error: "+firstLine(got.Panic)+" at "+libFrame(got.Panic)))
				continue
			case got.Err:
				ev.Ret = "error"
			case got.Outcome == o.Outcome:
				ev.Ret = "same"
			default:
				ev.Ret = "different"
				add(mk(o.Step, o.Name, j, fmt.Sprintf("a failed storage call (%s) is passed off as a result: fault-free %q, with the fault %q", refKinds[j], truncate(o.Outcome, 200), truncate(got.Outcome, 200))))
				continue
			}
			if o.Writer && !noDurable {
				ev.Durable = fault.Durable(faultdb.Dump(r.Mem), b, o.Step, pal, false, nil)
				okD := ev.Durable == "pre=post" || ev.Durable == "post" || (ev.Ret == "error" && ev.Durable == "pre")
				if !okD {
					add(mk(o.Step, o.Name, j, fmt.Sprintf("after a failed storage call (%s) the call returned %s and the store reopens to %s", refKinds[j], ev.Ret, ev.Durable)))
					continue
				}
			}
			key := fmt.Sprintf("%s/%v/%s/%s", ev.Op, ev.Writer, ev.Ret, ev.Durable)
			if e := events[key]; e != nil {
				e.N++
			} else {
				ev.N = 1
				events[key] = &ev
			}
		}
	}
	return
}

// validateEvents lets TLC validate the recorded interruption events against IavlFault.tla.
func validateEvents(evs []*faultEvent) (*tlcrun.Result, error) {
	var sb strings.Builder
	for _, e := range evs {
		b, _ := json.Marshal(e)
		sb.Write(b)
		sb.WriteByte('\n')
	}
	r, err := tlcrun.Run(tlcrun.Opts{Module: "IavlFault", CfgText: "SPECIFICATION Spec\nINVARIANTS Conforms\nCHECK_DEADLOCK FALSE\n",
		Files: map[string]string{"trace.ndjson": sb.String()}, Workers: 1, Timeout: 10 * time.Minute})
	if err != nil {
		return r, err
	}
	if r.Violation != "" {
		return r, fmt.Errorf("IavlFault.tla rejects a recorded event: %s\n%s", r.Violation, lastLines(r.Output, 15))
	}
	return r, nil
}

// RunC17 is the check of C17.
func RunC17(id, tier string, seed int64) int {
	start := time.Now()
	if tier == "thorough" {
		multiEvery = 1
	}
	ev := &Evidence{PropertyID: id, Tier: tier, Seed: seed, Coverage: map[string]interface{}{}}
	ev.Assumptions = []string{"the storage wrapper fails one call per execution, or - at sampled positions - every call from the chosen one until the operation returns", "the library is deterministic for a given behaviour (executions that do not reach the same call are not judged)",
		"flush threshold at its default: an operation is one physical write (split operations are C05's subject)"}
	fail := func(code int, msg string) int {
		fmt.Println(msg)
		ev.Coverage["explanation"] = msg
		ev.Coverage["evaluations"] = 0
		ev.Coverage["distinct_nontrivial"] = 0
		_ = WriteEvidence(ev, start)
		return code
	}
	states, transitions, mcDone, notes, err := RunMc([]McSpec{iavlMc(3, 2, 2, 2, "{0, 3}", allInvs)})
	if err != nil {
		return fail(2, "INCONCLUSIVE: "+err.Error())
	}
	sim := SimSpec{Module: "MCIavl", Spec: "SpecSim", K: 4, V: 2, IVs: "{0, 5}", D: 12, Workers: 4, Num: tierNum(tier, 4, 30),
		Classes: []string{"set", "set", "set", "rm", "rmhit", "save", "save", "save", "rollback", "reopen", "reopen", "load", "lvfo", "delto", "delto", "savecs"}, Invs: []string{"InvContents"}}
	behs, gen, err := GenerateBehaviours(sim, seed)
	if err != nil {
		return fail(2, "INCONCLUSIVE: "+err.Error())
	}
	transitions += gen
	// a second family weighted towards pruning of versions that share subtrees with their successor
	// (the orphan walk reads two trees side by side; a failed read there once destroyed the successor)
	simP := sim
	simP.K, simP.D, simP.Num = 5, 14, 60
	simP.Classes = []string{"set", "set", "set", "setnew", "setnew", "setnew", "rmhit", "save", "save", "save", "deltook", "deltook", "deltook", "reopen"}
	candP, genP, err := GenerateBehaviours(simP, seed+17)
	if err != nil {
		return fail(2, "INCONCLUSIVE: "+err.Error())
	}
	transitions += genP
	var behsP []*model.Behaviour
	for _, b := range candP {
		if len(behsP) < tierNum(tier, 10, 40) && prunesSharedVersion(b) {
			behsP = append(behsP, b)
		}
	}
	ev.Coverage["prune_family"] = fmt.Sprintf("%d of %d generated behaviours delete a version of >= 2 keys that shares nodes with its successor; %d used", countIf(candP, prunesSharedVersion), len(candP), len(behsP))
	behs = append(behs, behsP...)
	rng := rand.New(rand.NewSource(seed))
	type job struct {
		b       *model.Behaviour
		pal     *palette.Palette
		palName string
		palSeed int64
		cache   int
		sync    bool
	}
	jobs := make([]job, len(behs))
	for i, b := range behs {
		name := palette.Names[rng.Intn(len(palette.Names))]
		ps := rng.Int63()
		jobs[i] = job{b, palette.New(name, simP.K, ps), name, ps, []int{0, 0, 100}[rng.Intn(3)], rng.Intn(2) == 0}
	}
	type res struct {
		events map[string]*faultEvent
		viols  []faultViolation
		pos    int
		kinds  map[string]int
	}
	out := make([]res, len(jobs))
	var wg sync.WaitGroup
	sem := make(chan struct{}, 14)
	for i := range jobs {
		wg.Add(1)
		sem <- struct{}{}
		go func(i int) {
			defer wg.Done()
			defer func() { <-sem }()
			j := jobs[i]
			e, v, p, k := faultOne(j.b, j.pal, j.palName, j.palSeed, simP.K, j.cache, 100000, j.sync)
			out[i] = res{e, v, p, k}
		}(i)
	}
	wg.Wait()
	known, err := LoadFindings()
	if err != nil {
		return fail(2, "INCONCLUSIVE: "+err.Error())
	}
	merged := map[string]*faultEvent{}
	kinds := map[string]int{}
	positions := 0
	var violations []string
	knownSeen := map[string]string{}
	tolerated := map[string]int{}
	replayDir := filepath.Join(OutDir, "evidence", "replays")
	if old, _ := filepath.Glob(filepath.Join(replayDir, id+"-*.json")); len(old) > 0 {
		for _, f := range old {
			_ = os.Remove(f)
		}
	}
	for _, r := range out {
		positions += r.pos
		for k, n := range r.kinds {
			kinds[k] += n
		}
		for k, e := range r.events {
			if m := merged[k]; m != nil {
				m.N += e.N
			} else {
				c := *e
				merged[k] = &c
			}
		}
		for _, v := range r.viols {
			v.Property = id
			fid := classifyFault(&v)
			if f, ok := known[fid]; ok && fid != "" && f.Status == "known" {
				tolerated[fid]++
				if _, dup := knownSeen[fid]; !dup {
					knownSeen[fid] = fmt.Sprintf("%s (e.g. step %d %s, failing call %s #%d: %s)", f.Signature, v.Step, v.Op, v.CallKind, v.FailAt, truncate(v.Msg, 200))
				}
				continue
			}
			_ = os.MkdirAll(replayDir, 0o755)
			path := filepath.Join(replayDir, fmt.Sprintf("%s-%d-%d.json", id, seed, len(violations)))
			bts, _ := json.MarshalIndent(v, "", " ")
			_ = os.WriteFile(path, bts, 0o644)
			violations = append(violations, fmt.Sprintf("VIOLATION property=%s replay=%s", id, path))
			if len(violations) <= 8 {
				fmt.Printf("  step %d %s, failing storage call #%d (%s): %s\n    behaviour: %s\n", v.Step, v.Op, v.FailAt, v.CallKind, truncate(v.Msg, 300), truncate(v.Summary, 300))
			}
		}
	}
	// the same behaviours at a flush threshold that makes the batch flush inside operations (child processes)
	sv, spos, sdied, err := smallFlushPass(id, seed, behs, simP.K)
	if err != nil {
		return fail(2, "INCONCLUSIVE: "+err.Error())
	}
	positions += spos
	for _, v := range sv {
		v.Property = id
		if f, ok := known[classifyFault(&v)]; ok && f.Status == "known" {
			continue
		}
		_ = os.MkdirAll(replayDir, 0o755)
		path := filepath.Join(replayDir, fmt.Sprintf("%s-%d-%d.json", id, seed, len(violations)))
		bts, _ := json.MarshalIndent(v, "", " ")
		_ = os.WriteFile(path, bts, 0o644)
		violations = append(violations, fmt.Sprintf("VIOLATION property=%s replay=%s", id, path))
		if len(violations) <= 8 {
			fmt.Printf("  [flush threshold 150] step %d %s, failing storage call #%d (%s): %s\n", v.Step, v.Op, v.FailAt, v.CallKind, truncate(v.Msg, 300))
		}
	}
	ev.Coverage["multi_fault_positions"] = fmt.Sprintf("%d positions re-run with a persistent failure (every storage call from the chosen one until the operation returns fails), every %dth position", atomic.LoadInt64(&multiPositions), multiEvery)
	ev.Coverage["small_flush_threshold_pass"] = fmt.Sprintf("%d fault positions in child processes, %d processes died", spos, sdied)
	// regression witnesses of repaired defects
	wfiles, _ := filepath.Glob(filepath.Join(VerifDir, "findings", id+"-*.json"))
	witnesses := 0
	for _, wf := range wfiles {
		bts, err := os.ReadFile(wf)
		if err != nil {
			continue
		}
		var w faultViolation
		if json.Unmarshal(bts, &w) != nil || (w.Kind != "fault" && w.Kind != "fault-child") {
			continue
		}
		wb, err := model.ParseBehaviour(string(w.Behaviour))
		if err != nil {
			return fail(2, "INCONCLUSIVE: witness "+wf+": "+err.Error())
		}
		witnesses++
		if w.Kind == "fault-child" {
			if cv, cp, _ := childWitness(wb, &w); len(cv) > 0 {
				fmt.Printf("  regression witness %s fails again: %s\n", filepath.Base(wf), truncate(cv[0].Msg, 200))
				violations = append(violations, fmt.Sprintf("VIOLATION property=%s replay=%s", id, wf))
			} else {
				positions += cp
			}
			continue
		}
		_, wv, wp, _ := faultOne(wb, palette.New(w.Palette, w.K, w.PalSeed), w.Palette, w.PalSeed, w.K, w.Cache, w.Flush, w.Sync)
		positions += wp
		for _, x := range wv {
			x.Property = id
			if f, ok := known[classifyFault(&x)]; ok && f.Status == "known" {
				continue
			}
			fmt.Printf("  regression witness %s fails again: step %d %s call #%d: %s\n", filepath.Base(wf), x.Step, x.Op, x.FailAt, truncate(x.Msg, 200))
			violations = append(violations, fmt.Sprintf("VIOLATION property=%s replay=%s", id, wf))
			break
		}
	}
	ev.Coverage["regression_witnesses_replayed"] = witnesses
	var evs []*faultEvent
	for _, e := range merged {
		evs = append(evs, e)
	}
	tr, err := validateEvents(evs)
	if err != nil {
		return fail(2, "INCONCLUSIVE: "+err.Error())
	}
	transitions += tr.Generated
	var samples []interface{}
	for i := 0; i < len(behs) && i < 3; i++ {
		samples = append(samples, map[string]interface{}{"behaviour": behs[i].Summary(), "fault_positions": out[i].pos})
	}
	distinct := map[string]bool{}
	for _, b := range behs {
		if hasOps(b, "set", "save") {
			distinct[b.Summary()] = true
		}
	}
	ev.Coverage["states"] = states
	ev.Coverage["transitions"] = transitions
	ev.Coverage["traces_validated_against_impl"] = positions
	ev.Coverage["samples"] = samples
	ev.Coverage["evaluations"] = positions
	ev.Coverage["distinct_nontrivial"] = len(distinct)
	ev.Coverage["rule"] = "Iavl.tla behaviours (12 steps over 4 keys); after every step the read APIs that have an error result are probed (Get/Has/GetWithIndex/GetByIndex/Iterate/Iterator+Error/GetVersioned/GetImmutable+reads/GetProof/Export to the end/TraverseStateChanges/GetLatestVersion on the working state, the latest and the first version); a fault-free execution numbers the storage calls (Get, Has, iterator creation, iterator step, batch Set/Delete/Write); then the behaviour is re-executed once per storage call of every operation with exactly that call failing; the interrupted call must return an error or the fault-free answer, must not panic, and for writers the store must reopen to the state before or after the call (after it, if success was reported); the event classes are validated by TLC against IavlFault.tla; evaluations = fault positions executed; distinct_nontrivial = distinct behaviours with a set and a commit"
	ev.Coverage["exhaustive"] = false
	ev.Coverage["fault_positions_by_call_kind"] = kinds
	ev.Coverage["event_classes"] = evs
	ev.Coverage["behaviours"] = len(behs)
	ev.Coverage["model_checking_runs"] = notes
	ev.Coverage["model_checking_exhaustive_on_bounded_instance"] = mcDone
	ev.Coverage["observations_explained_by_listed_finding"] = tolerated
	ev.Violations = len(violations)
	for fid, msg := range knownSeen {
		fmt.Printf("KNOWN-FINDING: property=%s %s %s\n", id, fid, msg)
	}
	if err := WriteEvidence(ev, start); err != nil {
		fmt.Println("INCONCLUSIVE:", err)
		return 2
	}
	if len(violations) > 0 {
		for _, l := range violations {
			fmt.Println(l)
		}
		return 1
	}
	fmt.Printf("OK property=%s tier=%s seed=%d: %d behaviours, %d fault positions executed, %.0fs\n", id, tier, seed, len(behs), positions, time.Since(start).Seconds())
	return 0
}

// prunesSharedVersion: some successful DeleteVersionsTo removes a version n whose tree has at least
// two keys and differs from the tree of n+1 without being disjoint from it (the orphan walk then
// reads both trees side by side).
func prunesSharedVersion(b *model.Behaviour) bool {
	trees := map[int64]*model.Tree{}
	for i, s := range b.Steps {
		if (s.Op == "save" || s.Op == "savecs") && !s.Ret.Err {
			trees[s.Ret.Ver] = s.Ret.Tree
		}
		if s.Op == "delto" && !s.Ret.Err && i > 0 && s.First > b.Steps[i-1].First {
			for n := b.Steps[i-1].First; n <= s.Args.N; n++ {
				a, c := trees[n], trees[n+1]
				if a != nil && c != nil && a.Sz >= 2 && c.Sz >= 2 && c.Ver == n+1 {
					return true
				}
			}
		}
	}
	return false
}

func countIf(bs []*model.Behaviour, f func(*model.Behaviour) bool) int {
	n := 0
	for _, b := range bs {
		if f(b) {
			n++
		}
	}
	return n
}

// FaultChild is the entry point of the child process used for the small-flush-threshold pass: a failing
// auto-flush can kill the whole process (a Go runtime fatal error cannot be recovered), so that pass
// runs outside the checking process. It prints one JSON line with the violations it saw.
func FaultChild(jobFile string) int {
	bts, err := os.ReadFile(jobFile)
	if err != nil {
		fmt.Println(err)
		return 2
	}
	var j struct {
		Behaviour json.RawMessage `json:"behaviour"`
		Palette   string          `json:"palette"`
		PalSeed   int64           `json:"palseed"`
		K, Flush  int
	}
	if err := json.Unmarshal(bts, &j); err != nil {
		fmt.Println(err)
		return 2
	}
	b, err := model.ParseBehaviour(string(j.Behaviour))
	if err != nil {
		fmt.Println(err)
		return 2
	}
	noDurable = true
	_, viols, pos, _ := faultOne(b, palette.New(j.Palette, j.K, j.PalSeed), j.Palette, j.PalSeed, j.K, 0, j.Flush, false)
	out, _ := json.Marshal(map[string]interface{}{"viols": viols, "positions": pos})
	fmt.Println("CHILDRESULT " + string(out))
	return 0
}

// multi-fault sequences: a persistent failure from the chosen call on, at every multiEvery-th position
var (
	multiFault     = true
	multiEvery     = 4
	multiPositions int64
)

// noDurable: the small-threshold pass judges answers and process survival only; the durable state of
// an operation that was cut by an auto-flush is the subject of C05 (incl. its listed findings)
var noDurable bool

// childWitness replays one recorded small-threshold job.
func childWitness(b *model.Behaviour, w *faultViolation) ([]faultViolation, int, bool) {
	exe, err := os.Executable()
	if err != nil {
		return []faultViolation{{Step: -1, Msg: err.Error()}}, 0, true
	}
	dir, err := os.MkdirTemp("", "vfault")
	if err != nil {
		return []faultViolation{{Step: -1, Msg: err.Error()}}, 0, true
	}
	defer os.RemoveAll(dir)
	return childRun(exe, filepath.Join(dir, "job.json"), b, w.Palette, w.PalSeed, w.K)
}

// childRun executes one small-threshold job in a child process.
func childRun(exe, jf string, b *model.Behaviour, name string, ps int64, k int) ([]faultViolation, int, bool) {
	jb, _ := json.Marshal(map[string]interface{}{"behaviour": json.RawMessage(b.Raw), "palette": name, "palseed": ps, "K": k, "Flush": 150})
	if err := os.WriteFile(jf, jb, 0o644); err != nil {
		return []faultViolation{{Step: -1, Msg: err.Error(), Kind: "fault-child"}}, 0, true
	}
	ctx, cancel := context.WithTimeout(context.Background(), 10*time.Minute)
	defer cancel()
	cmd := osexec.CommandContext(ctx, exe, "C17-child", jf)
	var so, se bytes.Buffer
	cmd.Stdout, cmd.Stderr = &so, &se
	runErr := cmd.Run()
	for _, line := range strings.Split(so.String(), "\n") {
		if strings.HasPrefix(line, "CHILDRESULT ") {
			var r struct {
				Viols     []faultViolation `json:"viols"`
				Positions int              `json:"positions"`
			}
			if json.Unmarshal([]byte(line[len("CHILDRESULT "):]), &r) == nil {
				return r.Viols, r.Positions, false
			}
		}
	}
	msg := firstLine(strings.TrimSpace(se.String()))
	for _, l := range strings.Split(se.String(), "\n") {
		if strings.HasPrefix(l, "fatal error:") || strings.HasPrefix(l, "panic:") {
			msg = l
			break
		}
	}
	return []faultViolation{{Behaviour: json.RawMessage(b.Raw), Summary: b.Summary(), Palette: name, PalSeed: ps, K: k, Flush: 150, Step: -1, Op: "?", FailAt: -1,
		Msg: fmt.Sprintf("with one storage call failing at flush threshold 150 the whole process died (%v): %s", runErr, msg), Kind: "fault-child"}}, 0, true
}

// smallFlushPass runs every behaviour once more at flush threshold 150 in child processes.
func smallFlushPass(id string, seed int64, behs []*model.Behaviour, k int) (viols []faultViolation, positions int, died int, err error) {
	exe, err := os.Executable()
	if err != nil {
		return nil, 0, 0, err
	}
	dir, err := os.MkdirTemp("", "vfault")
	if err != nil {
		return nil, 0, 0, err
	}
	defer os.RemoveAll(dir)
	rng := rand.New(rand.NewSource(seed + 5))
	type res struct {
		viols []faultViolation
		pos   int
		died  bool
	}
	out := make([]res, len(behs))
	var wg sync.WaitGroup
	sem := make(chan struct{}, 12)
	for i, b := range behs {
		name := palette.Names[rng.Intn(len(palette.Names))]
		ps := rng.Int63()
		jf := filepath.Join(dir, fmt.Sprintf("job%d.json", i))
		wg.Add(1)
		sem <- struct{}{}
		go func(i int, b *model.Behaviour, jf, name string, ps int64) {
			defer wg.Done()
			defer func() { <-sem }()
			v, p, d := childRun(exe, jf, b, name, ps, k)
			out[i] = res{v, p, d}
		}(i, b, jf, name, ps)
	}
	wg.Wait()
	for _, r := range out {
		viols = append(viols, r.viols...)
		positions += r.pos
		if r.died {
			died++
		}
	}
	return
}

// classifyFault maps a fault violation to a listed finding id ("" = none).
func classifyFault(v *faultViolation) string {
	return ""
}

// ReplayFault re-executes one fault position.
func ReplayFault(path string) (bool, int) {
	bts, err := os.ReadFile(path)
	if err != nil {
		return false, 2
	}
	var v faultViolation
	if json.Unmarshal(bts, &v) != nil || (v.Kind != "fault" && v.Kind != "fault-child") {
		return false, 0
	}
	b, err := model.ParseBehaviour(string(v.Behaviour))
	if err != nil {
		fmt.Println("INCONCLUSIVE:", err)
		return true, 2
	}
	if v.Kind == "fault-child" {
		cv, _, _ := childWitness(b, &v)
		for _, x := range cv {
			if v.Step < 0 || (x.Step == v.Step && x.Op == v.Op && x.FailAt == v.FailAt && x.Persist == v.Persist) {
				fmt.Println(x.Msg)
				fmt.Printf("VIOLATION property=%s replay=%s\n", v.Property, path)
				return true, 1
			}
		}
		fmt.Println("replay passes on the current tree")
		return true, 0
	}
	pal := palette.New(v.Palette, v.K, v.PalSeed)
	_, viols, _, _ := faultOne(b, pal, v.Palette, v.PalSeed, v.K, v.Cache, v.Flush, v.Sync)
	for _, x := range viols {
		if x.Step == v.Step && x.Op == v.Op && x.FailAt == v.FailAt && x.Persist == v.Persist {
			fmt.Printf("step %d %s, failing call #%d (%s): %s\n", x.Step, x.Op, x.FailAt, x.CallKind, x.Msg)
			fmt.Printf("VIOLATION property=%s replay=%s\n", v.Property, path)
			return true, 1
		}
	}
	fmt.Println("replay passes on the current tree")
	return true, 0
}

// libFrame returns the innermost library frame of a panic stack.
func libFrame(stack string) string {
	lines := strings.Split(stack, "\n")
	for i, l := range lines {
		if strings.HasPrefix(l, "github.com/cosmos/iavl") && i+1 < len(lines) {
			fn := l
			if k := strings.LastIndex(fn, "("); k > 0 {
				fn = fn[:k]
			}
			loc := strings.TrimSpace(lines[i+1])
			if k := strings.Index(loc, " +"); k > 0 {
				loc = loc[:k]
			}
			return fn + " " + filepath.Base(loc)
		}
	}
	return "?"
}
