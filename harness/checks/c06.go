package checks

import (
	"bytes"
	"context"
	"encoding/json"
	"fmt"
	"os"
	"os/exec"
	"path/filepath"
	"regexp"
	"sort"
	"strings"
	"time"
)

var reFrame = regexp.MustCompile(`^\s+(github\.com/cosmos/iavl\S*)\(\)\s*$`)

// parseRaces extracts, for every race report, the innermost cosmos/iavl frame of the two accesses.
func parseRaces(stderr string) map[string]string {
	races := map[string]string{}
	blocks := strings.Split(stderr, "WARNING: DATA RACE")
	for _, blk := range blocks[1:] {
		if i := strings.Index(blk, "=================="); i >= 0 {
			blk = blk[:i]
		}
		// sections: "Write at ... by goroutine N:" / "Previous read at ... by goroutine M:" / "Goroutine N (running) created at:"
		var tops []string
		section := ""
		for _, line := range strings.Split(blk, "\n") {
			t := strings.TrimSpace(line)
			switch {
			case strings.HasPrefix(t, "Write at"), strings.HasPrefix(t, "Read at"), strings.HasPrefix(t, "Previous write at"), strings.HasPrefix(t, "Previous read at"):
				section = t[:strings.Index(t, " at")]
				tops = append(tops, "")
			case strings.HasPrefix(t, "Goroutine "):
				section = ""
			default:
				if section != "" && len(tops) > 0 && tops[len(tops)-1] == "" {
					if m := reFrame.FindStringSubmatch(line); m != nil {
						tops[len(tops)-1] = section + " in " + strings.TrimPrefix(m[1], "github.com/cosmos/iavl")
					}
				}
			}
		}
		var inLib []string
		for _, t := range tops {
			if t != "" {
				inLib = append(inLib, t)
			}
		}
		if len(inLib) == 0 {
			continue // a race outside the library (would be a defect of the harness)
		}
		sort.Strings(inLib)
		key := strings.Join(inLib, " / ")
		if _, ok := races[key]; !ok {
			races[key] = truncate(blk, 3000)
		}
	}
	return races
}

// raceStress is the data-race clause of C06: the -race binary runs a free-running writer next to readers.
func raceStress(id, tier string, seed int64, ev *Evidence) ([]string, []string, error) {
	bin := os.Getenv("VERIF_VRACE")
	if bin == "" {
		return nil, nil, fmt.Errorf("the -race stress binary was not built (VERIF_VRACE unset)")
	}
	sim := SimSpec{Module: "MCIavl", Spec: "SpecSim", K: 6, V: 3, IVs: "{0, 5}", D: 40, Workers: 4, Num: 10,
		Classes: []string{"set", "set", "set", "set", "rm", "rmhit", "rmhit", "save", "save", "rollback"}, Invs: []string{"InvContents"}}
	behs, _, err := GenerateBehaviours(sim, seed+99)
	if err != nil {
		return nil, nil, err
	}
	dir, err := os.MkdirTemp("", "vrace")
	if err != nil {
		return nil, nil, err
	}
	defer os.RemoveAll(dir)
	var sb strings.Builder
	for _, b := range behs {
		sb.WriteString(strings.ReplaceAll(b.Raw, "\n", " "))
		sb.WriteByte('\n')
	}
	file := filepath.Join(dir, "behaviours.ndjson")
	if err := os.WriteFile(file, []byte(sb.String()), 0o644); err != nil {
		return nil, nil, err
	}
	budget := "25s"
	if tier == "thorough" {
		budget = "600s"
	}
	ctx, cancel := context.WithTimeout(context.Background(), 20*time.Minute)
	defer cancel()
	cmd := exec.CommandContext(ctx, bin, file, budget, fmt.Sprint(seed))
	cmd.Env = append(os.Environ(), "GORACE=halt_on_error=0 history_size=4")
	var stdout, stderr bytes.Buffer
	cmd.Stdout, cmd.Stderr = &stdout, &stderr
	runErr := cmd.Run()
	if !strings.Contains(stdout.String(), "DONE runs=") {
		return nil, nil, fmt.Errorf("the race stress did not finish: %v\n%s", runErr, lastLines(stderr.String(), 20))
	}
	var violations []string
	replayDir := filepath.Join(OutDir, "evidence", "replays")
	_ = os.MkdirAll(replayDir, 0o755)
	known, _ := LoadFindings()
	var knownLines []string
	races := parseRaces(stderr.String())
	var keys []string
	for k := range races {
		keys = append(keys, k)
	}
	sort.Strings(keys)
	for i, k := range keys {
		if f, ok := known["F-C06-race:"+k]; ok && f.Status == "known" {
			knownLines = append(knownLines, fmt.Sprintf("KNOWN-FINDING: property=%s %s", id, f.Signature))
			continue
		}
		path := filepath.Join(replayDir, fmt.Sprintf("%s-race-%d-%d.json", id, seed, i))
		b, _ := json.MarshalIndent(map[string]interface{}{"property": id, "kind": "race", "pair": k, "report": races[k]}, "", " ")
		_ = os.WriteFile(path, b, 0o644)
		violations = append(violations, fmt.Sprintf("VIOLATION property=%s replay=%s", id, path))
		fmt.Printf("  data race: %s\n", k)
	}
	mism := 0
	for _, line := range strings.Split(stdout.String(), "\n") {
		if strings.HasPrefix(line, "MISMATCH") {
			mism++
			if mism <= 3 {
				fmt.Println("  concurrent reader: " + truncate(line, 300))
				path := filepath.Join(replayDir, fmt.Sprintf("%s-stress-%d-%d.json", id, seed, mism))
				b, _ := json.MarshalIndent(map[string]interface{}{"property": id, "kind": "stress-mismatch", "line": line}, "", " ")
				_ = os.WriteFile(path, b, 0o644)
				violations = append(violations, fmt.Sprintf("VIOLATION property=%s replay=%s", id, path))
			}
		}
	}
	done := ""
	for _, line := range strings.Split(stdout.String(), "\n") {
		if strings.HasPrefix(line, "DONE") {
			done = line
		}
	}
	ev.Coverage["race_stress"] = fmt.Sprintf("%s (budget %s, 3 reader goroutines, go race detector, yield hooks sleep 0-200us)", done, budget)
	ev.Coverage["race_reports_in_library"] = keys
	ev.Coverage["stress_mismatches"] = mism
	return violations, knownLines, nil
}
