package checks

import (
	"encoding/json"
	"fmt"
	"os"
	"path/filepath"
	"sync"
	"time"

	"github.com/cosmos/iavl/cache"

	"verif/harness/model"
	"verif/harness/tlcrun"
)

// The cache size must not matter to any property; LRUCache.tla states the contract of package cache
// (bounded, least-recently-used eviction, Add returns the replaced or evicted entry). TLC checks it on a
// bounded instance and generates programs; every return value of the real cache is compared.

type lruNode struct {
	k []byte
	v int
}

func (n *lruNode) GetKey() []byte { return n.k }

type lruStep struct {
	Op  string `json:"op"`
	K   int    `json:"k"`
	V   int    `json:"v"`
	Ret struct {
		K int `json:"k"`
		V int `json:"v"`
	} `json:"ret"`
	Len int `json:"len"`
}

func lruCfg(max, d int, record string, invs string) string {
	return fmt.Sprintf("SPECIFICATION Spec\nCONSTANTS\n  Keys = {1, 2, 3, 4}\n  Vals = {1, 2}\n  Max = %d\n  D = %d\n  Record = %s\n%sCHECK_DEADLOCK FALSE\n", max, d, record, invs)
}

func lruConformance(id string, seed int64, num int, ev *Evidence) ([]string, error) {
	var violations []string
	var states int64
	programs, calls := 0, 0
	// the TLC runs of the four cache sizes in parallel
	type gen struct {
		lines  []string
		states int64
		err    error
	}
	gens := make([]gen, 4)
	var gwg sync.WaitGroup
	for max := 0; max < 4; max++ {
		gwg.Add(1)
		go func(max int) {
			defer gwg.Done()
			mc, err := tlcrun.Run(tlcrun.Opts{Module: "LRUCache", CfgText: lruCfg(max, 0, "FALSE", "INVARIANTS Bounded Unique\n"), Workers: 2, Timeout: 5 * time.Minute})
			if err != nil {
				gens[max].err = err
				return
			}
			if mc.Violation != "" || !mc.Finished {
				gens[max].err = fmt.Errorf("LRUCache.tla (Max = %d): %s", max, mc.Violation)
				return
			}
			r, err := tlcrun.Run(tlcrun.Opts{Module: "LRUCache", CfgText: lruCfg(max, 30, "TRUE", ""), Workers: 1, Simulate: fmt.Sprintf("num=%d", num), Depth: 33,
				Seed: seed*10 + int64(max), Tag: "TRACE", Timeout: 5 * time.Minute})
			if err != nil {
				gens[max].err = err
				return
			}
			gens[max] = gen{r.Lines, mc.Distinct, nil}
		}(max)
	}
	gwg.Wait()
	for max := 0; max < 4; max++ {
		if gens[max].err != nil {
			return nil, gens[max].err
		}
		states += gens[max].states
		r := struct{ Lines []string }{gens[max].lines}
		for _, line := range r.Lines {
			js, ok := model.ExtractJSON(line, "TRACE")
			if !ok {
				return nil, fmt.Errorf("unparsable TRACE line from TLC (LRUCache)")
			}
			var steps []lruStep
			if err := json.Unmarshal([]byte(js), &steps); err != nil {
				return nil, err
			}
			programs++
			c := cache.New(max)
			for i, s := range steps {
				calls++
				key := []byte{byte(s.K)}
				gotK, gotV := -1, -1
				set := func(n cache.Node) {
					if n != nil {
						gotK, gotV = int(n.GetKey()[0]), n.(*lruNode).v
					}
				}
				switch s.Op {
				case "add":
					set(c.Add(&lruNode{key, s.V}))
				case "get":
					set(c.Get(key))
				case "remove":
					set(c.Remove(key))
				case "has":
					if c.Has(key) {
						gotK = s.K
					}
				}
				if gotK != s.Ret.K || (s.Op != "has" && gotV != s.Ret.V) || c.Len() != s.Len {
					replayDir := filepath.Join(OutDir, "evidence", "replays")
					_ = os.MkdirAll(replayDir, 0o755)
					path := filepath.Join(replayDir, fmt.Sprintf("%s-lru-%d-%d.json", id, seed, len(violations)))
					b, _ := json.MarshalIndent(map[string]interface{}{"property": id, "kind": "lru", "max": max, "program": steps, "step": i,
						"observed": fmt.Sprintf("%s(%d) returns (%d,%d) len %d, specification (%d,%d) len %d", s.Op, s.K, gotK, gotV, c.Len(), s.Ret.K, s.Ret.V, s.Len)}, "", " ")
					_ = os.WriteFile(path, b, 0o644)
					violations = append(violations, fmt.Sprintf("VIOLATION property=%s replay=%s", id, path))
					if len(violations) <= 3 {
						fmt.Printf("  cache (max %d) call %d: %s(%d) returns (%d,%d) len %d, specification (%d,%d) len %d\n", max, i, s.Op, s.K, gotK, gotV, c.Len(), s.Ret.K, s.Ret.V, s.Len)
					}
					break
				}
			}
		}
	}
	ev.Coverage["lru_cache_contract"] = fmt.Sprintf("LRUCache.tla model-checked for Max 0..3 (%d states); %d TLC-generated programs, %d calls on package cache, every return value and Len compared", states, programs, calls)
	return violations, nil
}

// ReplayLRU re-runs one recorded cache program.
func ReplayLRU(path string) (bool, int) {
	b, err := os.ReadFile(path)
	if err != nil {
		return false, 2
	}
	var rf struct {
		Property string    `json:"property"`
		Kind     string    `json:"kind"`
		Max      int       `json:"max"`
		Program  []lruStep `json:"program"`
	}
	if json.Unmarshal(b, &rf) != nil || rf.Kind != "lru" {
		return false, 0
	}
	c := cache.New(rf.Max)
	for i, s := range rf.Program {
		key := []byte{byte(s.K)}
		gotK, gotV := -1, -1
		set := func(n cache.Node) {
			if n != nil {
				gotK, gotV = int(n.GetKey()[0]), n.(*lruNode).v
			}
		}
		switch s.Op {
		case "add":
			set(c.Add(&lruNode{key, s.V}))
		case "get":
			set(c.Get(key))
		case "remove":
			set(c.Remove(key))
		case "has":
			if c.Has(key) {
				gotK = s.K
			}
		}
		if gotK != s.Ret.K || (s.Op != "has" && gotV != s.Ret.V) || c.Len() != s.Len {
			fmt.Printf("call %d: %s(%d) returns (%d,%d) len %d, specification (%d,%d) len %d\n", i, s.Op, s.K, gotK, gotV, c.Len(), s.Ret.K, s.Ret.V, s.Len)
			fmt.Printf("VIOLATION property=%s replay=%s\n", rf.Property, path)
			return true, 1
		}
	}
	fmt.Println("replay passes on the current tree")
	return true, 0
}
