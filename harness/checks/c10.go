package checks

import (
	"encoding/json"
	"fmt"
	"os"
	"path/filepath"
	"sync"
	"time"

	"verif/harness/impfuzz"
	"verif/harness/model"
	"verif/harness/tlcrun"
)

// fuzzCfg returns the model module (TLC's cfg parser does not accept negative numbers, so the
// alphabet is defined in a generated module) and the cfg text.
func fuzzCfg(exhaustive bool, maxLen int, heights, versions, keys, vals string) (string, string) {
	ex := "FALSE"
	if exhaustive {
		ex = "TRUE"
	}
	mod := fmt.Sprintf("---- MODULE MCImportFuzz ----\nEXTENDS ImportFuzz\nH_ == %s\nV_ == %s\nK_ == %s\nVal_ == %s\n====\n", heights, versions, keys, vals)
	cfg := fmt.Sprintf(`SPECIFICATION Spec
CONSTANTS
  IV = 2
  Heights <- H_
  Versions <- V_
  KeysA <- K_
  ValsA <- Val_
  MaxLen = %d
  Exhaustive = %s
INVARIANTS InvAccepted
CHECK_DEADLOCK FALSE
`, maxLen, ex)
	return mod, cfg
}

func fuzzOpts(exhaustive bool, maxLen int, heights, versions, keys, vals string, o tlcrun.Opts) tlcrun.Opts {
	mod, cfg := fuzzCfg(exhaustive, maxLen, heights, versions, keys, vals)
	o.Module = "MCImportFuzz"
	o.CfgText = cfg
	o.Files = map[string]string{"MCImportFuzz.tla": mod}
	o.Tag = "TRACE"
	if o.Timeout == 0 {
		o.Timeout = 20 * time.Minute
	}
	return o
}

// hostileImport: the totality clause of C10. TLC enumerates node streams from ImportFuzz.tla and
// predicts the error-ness of every call; each stream is fed to the real importer.
func hostileImport(id, tier string, seed int64, ev *Evidence) (violations []string, known []string, err error) {
	fullH, fullV, fullK, fullVal := "{-1, 0, 1, 2, 127}", "{-1, 0, 1, 2, 3}", `{"nil", "empty", "a", "b"}`, `{"nil", "empty", "x"}`
	type run struct {
		name string
		o    tlcrun.Opts
	}
	runs := []run{
		{"all streams of length <= 1 over the full alphabet (300 node values)", fuzzOpts(true, 1, fullH, fullV, fullK, fullVal, tlcrun.Opts{Workers: 4})},
		{"all streams of length <= 2 over a reduced alphabet (54 node values)", fuzzOpts(true, 2, "{-1, 0, 1}", "{-1, 1, 3}", `{"nil", "a", "b"}`, `{"nil", "x"}`, tlcrun.Opts{Workers: 8})},
	}
	if tier == "thorough" {
		runs = append(runs, run{"all streams of length <= 3 over a reduced alphabet (24 node values)", fuzzOpts(true, 3, "{0, 1, 2}", "{0, 1, 2}", `{"nil", "a"}`, `{"nil", "x"}`, tlcrun.Opts{Workers: 8})})
		runs = append(runs, run{"all streams of length <= 2 over the full alphabet", fuzzOpts(true, 2, fullH, fullV, fullK, fullVal, tlcrun.Opts{Workers: 8})})
	}
	nsim := 1500
	if tier == "thorough" {
		nsim = 40000
	}
	for p := 0; p < 4; p++ {
		runs = append(runs, run{"random streams of length <= 7 over the full alphabet", fuzzOpts(false, 7, fullH, fullV, fullK, fullVal, tlcrun.Opts{Workers: 1,
			Simulate: fmt.Sprintf("num=%d", nsim/4), Depth: 12, Seed: seed*100 + int64(p), JavaOpts: "-Xmx3g"})})
	}
	results := make([]*tlcrun.Result, len(runs))
	errs := make([]error, len(runs))
	var wg sync.WaitGroup
	for i := range runs {
		wg.Add(1)
		go func(i int) {
			defer wg.Done()
			results[i], errs[i] = tlcrun.Run(runs[i].o)
		}(i)
	}
	wg.Wait()
	seen := map[string]bool{}
	var streams []*impfuzz.Stream
	var notes []string
	var states, transitions int64
	for i, r := range results {
		if errs[i] != nil {
			return nil, nil, fmt.Errorf("ImportFuzz (%s): %v", runs[i].name, errs[i])
		}
		if r.Violation != "" {
			return nil, nil, fmt.Errorf("ImportFuzz (%s): TLC reports %s", runs[i].name, r.Violation)
		}
		states += r.Distinct
		transitions += r.Generated
		n := 0
		for _, line := range r.Lines {
			js, ok := model.ExtractJSON(line, "TRACE")
			if !ok {
				return nil, nil, fmt.Errorf("unparsable ImportFuzz line")
			}
			if seen[js] {
				continue
			}
			seen[js] = true
			s, err := impfuzz.Parse(js)
			if err != nil {
				return nil, nil, err
			}
			streams = append(streams, s)
			n++
		}
		notes = append(notes, fmt.Sprintf("%s: %d new streams, %d states generated", runs[i].name, n, r.Generated))
	}
	if len(streams) == 0 {
		return nil, nil, fmt.Errorf("ImportFuzz produced no stream")
	}
	type res struct {
		s *impfuzz.Stream
		r impfuzz.Result
	}
	out := make([]res, len(streams))
	sem := make(chan struct{}, 14)
	for i := range streams {
		wg.Add(1)
		sem <- struct{}{}
		go func(i int) {
			defer wg.Done()
			defer func() { <-sem }()
			r := impfuzz.Run(streams[i], i%2 == 0)
			if r.Msg == "" {
				r = impfuzz.RunCompressed(streams[i], i%2 == 1)
			}
			out[i] = res{streams[i], r}
		}(i)
	}
	wg.Wait()
	replayDir := filepath.Join(OutDir, "evidence", "replays")
	accepted, rejected := 0, 0
	for i, o := range out {
		last := o.s.Calls[len(o.s.Calls)-1]
		if last.Op == "commit" && !last.Err {
			accepted++
		} else {
			rejected++
		}
		if o.r.Msg == "" {
			continue
		}
		_ = os.MkdirAll(replayDir, 0o755)
		path := filepath.Join(replayDir, fmt.Sprintf("%s-hostile-%d-%d.json", id, seed, i))
		b, _ := json.MarshalIndent(map[string]interface{}{"property": id, "kind": "hostile-import", "stream": o.s, "summary": o.s.String(), "observed": o.r.Msg}, "", " ")
		_ = os.WriteFile(path, b, 0o644)
		violations = append(violations, fmt.Sprintf("VIOLATION property=%s replay=%s", id, path))
		if len(violations) <= 5 {
			fmt.Printf("  hostile import: %s\n    %s\n", o.s.String(), firstLine(o.r.Msg))
		}
	}
	ev.Coverage["hostile_streams_run"] = len(streams)
	ev.Coverage["hostile_streams_accepted_by_commit"] = accepted
	ev.Coverage["hostile_streams_rejected_or_closed"] = rejected
	ev.Coverage["hostile_runs"] = notes
	ev.Coverage["states"] = ev.Coverage["states"].(int64) + states
	ev.Coverage["transitions"] = ev.Coverage["transitions"].(int64) + transitions
	ev.Coverage["traces_validated_against_impl"] = ev.Coverage["traces_validated_against_impl"].(int) + len(streams)
	if sm, ok := ev.Coverage["samples"].([]interface{}); ok && len(streams) > 2 {
		ev.Coverage["samples"] = append(sm, map[string]interface{}{"hostile_stream": streams[len(streams)/2].String()}, map[string]interface{}{"hostile_stream": streams[len(streams)-1].String()})
	}
	return violations, nil, nil
}

// ReplayHostile re-runs one hostile stream from a replay file.
func ReplayHostile(path string) (bool, int) {
	b, err := os.ReadFile(path)
	if err != nil {
		return false, 2
	}
	var rf struct {
		Property string          `json:"property"`
		Kind     string          `json:"kind"`
		Stream   *impfuzz.Stream `json:"stream"`
	}
	if json.Unmarshal(b, &rf) != nil || rf.Kind != "hostile-import" {
		return false, 0
	}
	for _, fast := range []bool{true, false} {
		r := impfuzz.Run(rf.Stream, fast)
		if r.Msg == "" {
			r = impfuzz.RunCompressed(rf.Stream, fast)
		}
		if r.Msg != "" {
			fmt.Println(rf.Stream.String())
			fmt.Println(r.Msg)
			fmt.Printf("VIOLATION property=%s replay=%s\n", rf.Property, path)
			return true, 1
		}
	}
	fmt.Println("replay passes on the current tree")
	return true, 0
}
