package checks

import (
	"fmt"
	"math/rand"
	"os"
	"strings"
	"time"

	"verif/harness/exec"
	"verif/harness/model"
)

func iavlMc(k, v, maxVer, maxOps int, ivs string, invs string) McSpec {
	return McSpec{Module: "MCIavl", Workers: 16, Timeout: 25 * time.Minute, CfgText: fmt.Sprintf(`SPECIFICATION SpecBounded
CONSTANTS
  K = %d
  V = %d
  IVs = %s
  D = 0
  MaxVer = %d
  MaxOps = %d
  Classes <- SimClasses
  Record = FALSE
VIEW view
INVARIANTS %s
CHECK_DEADLOCK FALSE
`, k, v, ivs, maxVer, maxOps, invs)}
}

// theoremMc: the tree-algebra theorems of TreeTheorems.tla on bounded instances.
func theoremTree(k int, invs string) McSpec {
	return McSpec{Module: "TreeTheorems", Workers: 16, Timeout: 20 * time.Minute, CfgText: fmt.Sprintf(`SPECIFICATION SpecTree
CONSTANTS
  K = %d
  V = 2
  MaxVer = 0
  MaxOps = 12
VIEW treeview
INVARIANTS %s
CHECK_DEADLOCK FALSE
`, k, invs)}
}

func theoremVer(k, maxVer, maxOps int, invs string) McSpec {
	return McSpec{Module: "TreeTheorems", Workers: 16, Timeout: 25 * time.Minute, CfgText: fmt.Sprintf(`SPECIFICATION Spec
CONSTANTS
  K = %d
  V = 2
  MaxVer = %d
  MaxOps = %d
INVARIANTS %s
CHECK_DEADLOCK FALSE
`, k, maxVer, maxOps, invs)}
}

// concMc: IavlConc.tla; the arguments select the variant of the code (see the module).
func concMc(maxOps int, cloneNils, publishEarly, fastAtomic, async string) McSpec {
	return McSpec{Module: "MCIavlConc", Workers: 16, Timeout: 30 * time.Minute, CfgText: fmt.Sprintf("SPECIFICATION Spec\nCONSTANTS\n  K = 2\n  Readers <- Rs\n  MaxOps = %d\n  CloneNilsChildren = %s\n  PublishEarly = %s\n  CacheShared = TRUE\n  FastReadAtomic = %s\n  AsyncPrune = %s\nINVARIANTS ReadCommitted NoRace PinHolds ReadersRetained LatestKept\nCHECK_DEADLOCK FALSE\n", maxOps, cloneNils, publishEarly, fastAtomic, async)}
}

// measured: (2,2,2,2) 550 849 distinct states / 14 M transitions; (2,2,2,3) 915 388 / 24.6 M; (2,2,3,2) does not
// finish within 25 minutes
func storeMc(k, v, maxVer, maxOps int, invs string) McSpec {
	return McSpec{Module: "MCIavlStore", Workers: 16, Timeout: 60 * time.Minute, CfgText: fmt.Sprintf(`SPECIFICATION SSpecBounded
CONSTANTS
  K = %d
  V = %d
  IVs = {0}
  D = 0
  MaxVer = %d
  MaxOps = %d
  Classes <- SimClasses
  Record = FALSE
  FixLvfoLabel = TRUE
  Exhaustive = FALSE
VIEW sview
INVARIANTS %s
CHECK_DEADLOCK FALSE
`, k, v, maxVer, maxOps, invs)}
}

const allInvs = "InvContents InvShape InvRange InvVersions InvRank"

var generalClasses = []string{"set", "set", "set", "set", "set", "set", "set", "rm", "rmhit", "rmhit", "save", "save", "save",
	"rollback", "reopen", "reopen", "load", "savecsreplay", "savecsreplay", "lvfo", "delto", "delto", "setnil", "import"}

func hasOps(b *model.Behaviour, ops ...string) bool {
	for _, op := range ops {
		found := false
		for _, s := range b.Steps {
			if s.Op == op && !s.Ret.Err {
				found = true
			}
		}
		if !found {
			return false
		}
	}
	return true
}

// rollbackThenPrune: a successful rollback to a legacy version below the boundary, later a commit,
// later an effective DeleteVersionsTo at or above the rollback target.
func rollbackThenPrune(b *model.Behaviour) bool {
	var ll, t int64 = 0, -1
	saved := false
	for i, s := range b.Steps {
		switch {
		case s.Op == "migrate":
			ll = s.Latest
		case s.Op == "lvfo" && !s.Ret.Err && ll > 0 && s.Args.T < ll && t < 0:
			t = s.Args.T
		case s.Op == "save" && !s.Ret.Err && t >= 0:
			saved = true
		case s.Op == "delto" && !s.Ret.Err && saved && s.Args.N >= t && i > 0 && s.First > b.Steps[i-1].First:
			return true
		}
	}
	return false
}

func tierNum(tier string, quick, thorough int) int {
	if tier == "thorough" {
		return thorough
	}
	return quick
}

// Build returns the check for a property id.
func Build(id, tier string, seed int64) (*BehavCheck, error) {
	thorough := tier == "thorough"
	c := &BehavCheck{ID: id, Tier: tier, Seed: seed}
	mcQuick := iavlMc(3, 2, 2, 2, "{0, 3}", allInvs)
	mcThorough := iavlMc(3, 2, 2, 3, "{0, 3}", allInvs) // 10.5 M distinct states, 552 M transitions (measured); MaxVer = 3 does not finish
	mcThorough.Timeout = 120 * time.Minute
	c.Mc = []McSpec{mcQuick}
	// the large instance (10.5 M states, about 25 minutes) for the properties that are invariants of Iavl.tla
	// itself; the others bring their own theorem / module runs and keep the quick instance of Iavl.tla
	if thorough && (id == "C01" || id == "C02" || id == "C11" || id == "C14") {
		c.Mc = []McSpec{mcThorough}
	}
	c.Sim = SimSpec{Module: "MCIavl", Spec: "SpecSim", K: 8, V: 3, IVs: "{0, 1, 5}", D: 40, Workers: 8,
		Num: tierNum(tier, 25, 600), Classes: generalClasses, Invs: []string{"InvContents"}}
	c.ConfigsPer = tierNum(tier, 2, 4)
	c.ShortNum, c.ShortD = tierNum(tier, 40, 600), 9
	c.Classify = classifyV1
	c.OwnFindings = map[string]bool{}
	for fid, prop := range findingOwner {
		if prop == id {
			c.OwnFindings[fid] = true
		}
	}
	switch id {
	case "C01":
		c.Classes = exec.Classes{Reads: true}
		c.Nontrivial = func(b *model.Behaviour) bool { return hasOps(b, "set", "save") }
		c.PostRun = func(ev *Evidence) ([]string, []string, error) {
			// reads and iteration after a rollback / index rebuild that crosses several 1024-key chunks
			return runScenarios(id, seed, ev, map[string]func() string{
				"chunked-rollback/mem/flush150": allScenarios["chunked-rollback/mem/flush150"],
			}), nil, nil
		}
		c.Rule = "behaviours generated by tlc -simulate from Iavl.tla (action class chosen at random per step, TLC picks the instance), each replayed on the real library under sampled configurations (cache, flush threshold, sync, backend, initial-version mode, key palette); after every step every read API of the working tree and of every retained version is compared with the specification's tree; non-trivial = contains a successful set and a successful commit; distinct = distinct operation sequences"
	case "C02":
		c.Classes = exec.Classes{Hash: true, ReadNoise: true}
		c.Nontrivial = func(b *model.Behaviour) bool { return hasOps(b, "set", "save") }
		c.Rule = "as C01's generator; at every step WorkingHash, Hash and the hash of every retained version, and at every commit the hash returned by SaveVersion, are compared with SHA-256 over the tree the specification printed (shape, heights, sizes, node versions from TLC); read-only calls (lookups, iteration, proofs, hash queries) are interleaved at every position, chosen by seed; non-trivial = contains a set and a commit"
	case "C03":
		c.Classes = exec.Classes{Proof: true}
		c.Mc = append(c.Mc, theoremTree(tierNum(tier, 4, 5), "T2 T8"))
		c.Sim.Num = tierNum(tier, 15, 300)
		// the ics23 verifier rejects an empty leaf value by design, so no proof of such a pair can verify
		c.Configure = func(rng *rand.Rand, cfg *exec.Config) { cfg.Pal.WithoutEmptyValue() }
		c.Assume = append(c.Assume, "values are non-empty: ics23 refuses to apply a leaf op to an empty value, so the property is not decidable for them with the standard verifier")
		c.Nontrivial = func(b *model.Behaviour) bool { return hasOps(b, "set", "save") }
		c.Rule = "as C01's generator; after every step, for the working tree and every non-empty retained version and every palette key and gap key: GetProof / GetMembershipProof / GetNonMembershipProof / GetVersionedProof, checked for kind, bracketing keys, verification with ics23.IavlSpec against SHA-256 over the specification's tree, and the negative matrix (other value, other key, opposite claim, roots of versions where the claim is false)"
	case "C14":
		c.Classes = exec.Classes{Versions: true}
		c.Sim.Classes = []string{"set", "set", "set", "rm", "rmhit", "save", "save", "save", "save", "rollback", "reopen", "reopen", "load", "load", "load", "lvfo", "delto", "deltook", "import"}
		c.Nontrivial = func(b *model.Behaviour) bool { return hasOps(b, "save", "delto") || hasOps(b, "save", "load") }
		c.PostRun = func(ev *Evidence) ([]string, []string, error) {
			list := map[string]func() string{}
			for name, f := range allScenarios {
				if strings.HasPrefix(name, "unloaded-commit/") {
					list[name] = f
				}
			}
			return runScenarios(id, seed, ev, list), nil, nil
		}
		c.Rule = "Iavl.tla behaviours weighted towards commits, loads of older versions, re-commits, pruning and rollback, with InitialVersion unset/1/5; after every step VersionExists, GetImmutable, GetVersioned, LoadVersion (fresh handle) for every version number from first-2 to latest+2, AvailableVersions, GetLatestVersion, Version, WorkingVersion; SaveVersion numbers and error-ness at every commit; non-trivial = contains a commit and a successful prune or load"
	case "C08":
		c.Classes = exec.Classes{Iter: true}
		c.Mc = append(c.Mc, theoremTree(tierNum(tier, 4, 5), "T2 T4"))
		c.Sim.Num = tierNum(tier, 12, 300)
		c.Sim.Classes = []string{"set", "set", "set", "set", "set", "set", "rm", "rmhit", "rmhit", "rmhit", "save", "save", "rollback", "reopen", "reopen", "load", "lvfo", "delto", "import"}
		c.Nontrivial = func(b *model.Behaviour) bool { return hasOps(b, "set", "save", "rm") }
		c.PostRun = func(ev *Evidence) ([]string, []string, error) {
			// reads and iteration after a rollback / index rebuild that crosses several 1024-key chunks
			return runScenarios(id, seed, ev, map[string]func() string{
				"chunked-rollback/mem/flush150": allScenarios["chunked-rollback/mem/flush150"],
			}), nil, nil
		}
		c.Rule = "Iavl.tla behaviours (uncommitted additions, updates and removals between commits; reopen with the index on/off; loads of older versions); after every step, on the working state and every retained version: ImmutableTree.Iterator (index iterator at the latest version, tree walk otherwise), NewIterator (tree walk), MutableTree.Iterator (index + uncommitted changes), IterateRange, IterateRangeInclusive and Iterate with a stop at every position, for (start, end, direction) triples drawn from nil, empty, every stored key, every gap key, a prefix and an extension of a stored key (seeded sample per state in quick, larger in thorough); checked: exact sequence, values, Domain, Valid after exhaustion and after Close, Error, Close, stop position and return value; the definition of the expected range (RangeOf) is proved equal to the transcribed traversal algorithm by TLC (TreeTheorems T4)"
	case "C11":
		c.Classes = exec.Classes{Rank: true, Reads: true}
		c.Mc = append(c.Mc, theoremTree(tierNum(tier, 4, 5), "T2 T11"))
		// ordered insertions reach the deepest trees: ascending, descending, alternating runs
		c.Sim.K = 12
		c.Sim.D = 50
		c.Sim.Num = tierNum(tier, 12, 250)
		c.Sim.Classes = []string{"set", "set", "set", "set", "set", "set", "setnew", "setnew", "setnew", "setnew", "setnew", "rm", "rmhit", "rmhit", "save", "save", "reopen", "delto", "load"}
		c.Nontrivial = func(b *model.Behaviour) bool { return hasOps(b, "set", "save", "rm") }
		c.PostRun = func(ev *Evidence) ([]string, []string, error) {
			return runScenarios(id, seed, ev, map[string]func() string{
				"tall-tree-costs/ascending":   allScenarios["tall-tree-costs/ascending"],
				"tall-tree-costs/descending":  allScenarios["tall-tree-costs/descending"],
				"tall-tree-costs/alternating": allScenarios["tall-tree-costs/alternating"],
			}), nil, nil
		}
		c.Rule = "Iavl.tla behaviours over 12 keys with insertion-biased classes (trees up to height 5, removals that empty subtrees, interleaved commits); after every step: GetWithIndex/GetByIndex over all keys, gap keys and ranks incl. out-of-range (C01 sweep), Height() and Size() equal to the spec tree's, the numeric AVL bound, and - on a handle with cache size 0 and the index off, through a counting store - the number of node reads of Get/Has/GetWithIndex/GetByIndex (<= 2h+2) and GetProof (<= 10h+10) with h from the spec tree; TLC checks WellFormed (AVL balance, size/height fields, routing keys) and the Fibonacci form of the height bound on every tree of the bounded instance"
	case "C15":
		c.Classes = exec.Classes{Changes: true}
		c.Mc = append(c.Mc, theoremVer(3, tierNum(tier, 2, 3), 3, "T2 T6"))
		c.Sim.Classes = []string{"set", "set", "set", "set", "set", "rm", "rmhit", "rmhit", "rmhit", "save", "save", "save", "savecs", "savecs", "rollback", "reopen", "load", "lvfo", "delto", "import"}
		c.Nontrivial = func(b *model.Behaviour) bool { return hasOps(b, "set", "save", "rm") }
		c.Rule = "Iavl.tla behaviours with repeated writes/removals of a key inside a version, set-then-remove, remove-then-set, identical rewrites, no-op and empty versions, SaveChangeSet (incl. removal of a missing key and a dirty working tree), pruning, rollback, import; at every commit TLC computes the change set with the transcribed diff algorithm (Changes), which TLC proves equal to the net writes of the version (T6) on the bounded instance; after every step TraverseStateChanges(a, b) for every range first <= a <= b <= latest+1 is compared with it for every version whose predecessor is retained (or which is the store's first version); at reopen and at the end the extracted sets are replayed into an empty store: contents of every version, and root hashes while the history was in normal form (TLC marks nf)"
	case "C12":
		c.Classes = exec.Classes{Raw: true}
		c.Mc = []McSpec{storeMc(2, 2, 2, tierNum(tier, 2, 3), "InvContents DiskKeysUnique P5 P5persist"), theoremVer(3, 2, 3, "T2 T5")}
		c.Sim.Module, c.Sim.Spec = "MCIavlStore", "SSpecSim"
		c.Sim.Classes = []string{"set", "set", "set", "set", "rm", "rmhit", "rmhit", "save", "save", "save", "save", "rollback", "reopen", "reopen", "reopenat", "load", "lvfo", "delto", "deltook", "deltook", "import", "savecs"}
		c.Nontrivial = func(b *model.Behaviour) bool { return hasOps(b, "set", "save", "delto") }
		c.PostRun = func(ev *Evidence) ([]string, []string, error) {
			return runScenarios(id, seed, ev, map[string]func() string{
				"chunked-rollback/mem/flush150": allScenarios["chunked-rollback/mem/flush150"],
			}), nil, nil
		}
		c.Rule = "IavlStore.tla behaviours (crash-free, synchronous pruning: commits with and without writes, repeated partial deletions, rollbacks, reopenings with the index on/off, loads of older versions, imports, change sets); after every step the raw store is scanned and decoded by an independent decoder: every retained version is decoded from its root entry s(v,1) (node, empty-root marker or reference) by following the stored child links and compared with the specification's tree (keys, values, heights, sizes, node versions, stored hashes of inner nodes); a link that does not resolve is a loss, an entry of the s key space that no retained version reaches is a leak (which nonce a node carries is not judged; a root written with nonce 1 may be found under nonce 0 after pruning re-keyed it); the persisted fast index and its label are compared with the label machine of the specification; a chunk-crossing rollback of 2300 keys is run as a scenario (node and index entry counts before and after); non-trivial = contains a set, a commit and a successful prune"
	case "C07":
		c.PostRun = func(ev *Evidence) ([]string, []string, error) {
			return runScenarios(id, seed, ev, map[string]func() string{
				"chunked-rollback/mem/flush150":      allScenarios["chunked-rollback/mem/flush150"],
				"large-index-rebuild/mem/flush150":   allScenarios["large-index-rebuild/mem/flush150"],
				"large-index-rebuild/level/flush150": allScenarios["large-index-rebuild/level/flush150"],
			}), nil, nil
		}
		c.Classes = exec.Classes{Reads: true, Iter: true, Raw: os.Getenv("VERIF_C07_NORAW") == ""}
		c.Mc = []McSpec{storeMc(2, 2, 2, tierNum(tier, 2, 3), "InvContents P5 P5persist")}
		c.Sim.Module, c.Sim.Spec = "MCIavlStore", "SSpecSim"
		c.Sim.K, c.Sim.D = 6, 30
		c.Sim.Num = tierNum(tier, 20, 400)
		c.Sim.Classes = []string{"set", "set", "set", "set", "rm", "rmhit", "rmhit", "save", "save", "save", "rollback", "reopen", "reopen", "reopen", "reopenat", "reopenat", "load", "load", "lvfo", "lvfo", "delto", "import", "savecs"}
		c.Nontrivial = func(b *model.Behaviour) bool { return hasOps(b, "set", "save", "reopen") }
		c.Rule = "IavlStore.tla behaviours in which every (re)open independently chooses the index on/off and which version to load (latest, or an older one directly), interleaved with writes, removals (also of keys written in the same version), commits, rollbacks, pruning, import; after every step every indexed read (Get, GetVersioned, MutableTree.Iterator/Iterate, ImmutableTree.Iterator at the latest version) is compared with the specification's tree (i.e. with the tree walk), for the working state and every retained version, and the raw persisted index and its label are compared with the label machine of IavlStore.tla; TLC checks index coherence P5 on the bounded instance with the listed deviation F-C07a as the only disjunct"
	case "C04":
		c.Classes = exec.Classes{Reads: true, Hash: true, Proof: true, Versions: true, Raw: true}
		c.Mc = []McSpec{storeMc(2, 2, 2, tierNum(tier, 2, 3), "InvContents InvRange DiskKeysUnique"), theoremVer(3, 2, 3, "T2 T5")}
		c.Sim.Module, c.Sim.Spec = "MCIavlStore", "SSpecSim"
		c.Sim.K, c.Sim.D = 6, 36
		c.Sim.Num = tierNum(tier, 12, 300)
		c.Sim.Classes = []string{"set", "set", "set", "rm", "rmhit", "save", "save", "save", "save", "save", "rollback", "reopen", "load", "lvfo", "delto", "delto", "deltook", "deltook", "deltook", "expopen", "expopen", "expclose", "import"}
		c.Configure = func(rng *rand.Rand, cfg *exec.Config) {
			cfg.Pal.WithoutEmptyValue() // proofs are part of the sweep (see C03)
			cfg.Flush = []int{115, 150, 200, 300, 1000, 100000}[rng.Intn(6)]
		}
		c.Nontrivial = func(b *model.Behaviour) bool { return hasOps(b, "set", "save", "delto") }
		c.Rule = "IavlStore.tla behaviours weighted to pruning: commits with and without writes (reference roots, empty roots, single-leaf roots reused by later trees), DeleteVersionsTo for arbitrary n (below the first version, one or many versions, n >= latest, versions held by an open export), repeated calls, rollbacks and reopenings in between; flush thresholds from 115 bytes (one deletion split over several physical batches) to the default; after every step every remaining version is compared with the specification in contents, root hash, proofs and availability, deleted versions must be unavailable, the raw store must equal Disk; a refused request (latest version, exported version) must be an error without effect; non-trivial = contains a set, a commit and a successful prune"
	case "C09":
		c.Classes = exec.Classes{Reads: true, Hash: true, Versions: true, Raw: true, Iter: true}
		c.Mc = []McSpec{storeMc(2, 2, 2, tierNum(tier, 2, 3), "InvContents InvRange DiskKeysUnique P5 P5persist")}
		c.Sim.Module, c.Sim.Spec = "MCIavlStore", "SSpecSim"
		c.Sim.K, c.Sim.D = 6, 36
		c.Sim.Num = tierNum(tier, 12, 300)
		c.Sim.Classes = []string{"set", "set", "set", "set", "rm", "rmhit", "save", "save", "save", "save", "rollback", "rollback", "rollback", "reopen", "reopen", "load", "lvfo", "lvfo", "lvfo", "lvfo", "delto", "expopen", "expclose"}
		c.Nontrivial = func(b *model.Behaviour) bool {
			return hasOps(b, "set", "save", "lvfo") || hasOps(b, "set", "save", "rollback")
		}
		c.PostRun = func(ev *Evidence) ([]string, []string, error) {
			return runScenarios(id, seed, ev, map[string]func() string{
				"chunked-rollback/mem/flush150":           allScenarios["chunked-rollback/mem/flush150"],
				"chunked-rollback/level/flush100000":      allScenarios["chunked-rollback/level/flush100000"],
				"large-rollback/mem/flush150/index-on":    allScenarios["large-rollback/mem/flush150/index-on"],
				"large-rollback/mem/flush150/index-off":   allScenarios["large-rollback/mem/flush150/index-off"],
				"large-rollback/level/flush150/index-on":  allScenarios["large-rollback/level/flush150/index-on"],
				"large-rollback/mem/flush100000/index-on": allScenarios["large-rollback/mem/flush100000/index-on"],
			}), nil, nil
		}
		c.Rule = "IavlStore.tla behaviours weighted to Rollback (discard of uncommitted changes) and LoadVersionForOverwriting (targets: latest, first, in between, outside the range, with a later version held by an export), nested and repeated, after pruning, followed by further writes and commits; the specification IS the twin whose history simply ended at v, so every later read (all read paths incl. iterators and indexed reads), commit hash, version query, reopen and the raw store (no node, root marker or index entry of the erased versions; label) is compared with it; cache sizes 0/2/1000, index on/off; non-trivial = contains a set, a commit and a rollback"
	case "C10":
		c.Classes = exec.Classes{Export: true, Hash: true}
		c.Mc = append(c.Mc, theoremVer(3, 2, 3, "T2 T7a T7b"))
		c.Sim.Num = tierNum(tier, 10, 250)
		c.Sim.D = 30
		c.Sim.Classes = []string{"set", "set", "set", "set", "set", "rm", "rmhit", "save", "save", "save", "rollback", "reopen", "load", "lvfo", "delto", "delto", "import", "import", "import"}
		c.Nontrivial = func(b *model.Behaviour) bool { return hasOps(b, "set", "save", "import") }
		c.PostRun = func(ev *Evidence) ([]string, []string, error) {
			v, k, err := hostileImport(id, tier, seed, ev)
			if err != nil {
				return nil, nil, err
			}
			v = append(v, runScenarios(id, seed, ev, map[string]func() string{
				"empty-key-round-trip/plain":              allScenarios["empty-key-round-trip/plain"],
				"empty-key-round-trip/compressed":         allScenarios["empty-key-round-trip/compressed"],
				"multi-batch-import/index-on/plain":       allScenarios["multi-batch-import/index-on/plain"],
				"multi-batch-import/index-off/compressed": allScenarios["multi-batch-import/index-off/compressed"],
				"multi-batch-import/one-version/index-on": allScenarios["multi-batch-import/one-version/index-on"],
			})...)
			return v, k, nil
		}
		c.Rule = "fidelity: Iavl.tla behaviours in which the import action (export a retained version, import it into an empty store, go on there) occurs repeatedly - so every later hash is compared with the specification that continues as if nothing happened; in addition after every step retained versions (first, latest, two random; empty tree, single leaf, inherited root, after pruning) are exported plain and compressed, the stream is compared node by node with the specification's post-order, imported into an empty store and compared in hash, contents and a proof. totality: TLC enumerates hostile node streams from ImportFuzz.tla (exhaustively up to the stated lengths, randomly up to length 7; heights incl. -1 and 127, versions incl. -1, 0 and too large, nil/empty keys and values, any order) and predicts the error-ness of every Add/Commit; each stream runs on the real importer under a panic handler and a deadline; nothing may be visible without a successful Commit; an accepted stream must be re-exported unchanged; non-trivial behaviour = contains a set, a commit and an import"
	case "C13":
		c.Classes = exec.Classes{Raw: true}
		col := exec.NewRawCollector()
		c.Mc = []McSpec{{Module: "MCNodeCodec", Workers: 4, Timeout: 10 * time.Minute, CfgText: "SPECIFICATION Spec\nINVARIANTS RoundTripLeaf RoundTripInner RoundTripVarint RoundTripFast RoundTripKey KeyOrder Total\nCHECK_DEADLOCK FALSE\n"},
			storeMc(2, 2, 2, 2, "InvContents DiskKeysUnique")}
		c.Sim.Module, c.Sim.Spec = "MCIavlStore", "SSpecSim"
		c.Sim.Num = tierNum(tier, 10, 250)
		c.Sim.D = 30
		c.Sim.Classes = []string{"set", "set", "set", "set", "set", "rm", "rmhit", "save", "save", "save", "rollback", "reopen", "reopenat", "load", "lvfo", "delto", "delto", "import"}
		c.Extra = func(e *exec.Executor, i int, s *model.Step) *exec.Violation {
			e.Collect(col)
			return e.SweepFormat(i, s)
		}
		c.Nontrivial = func(b *model.Behaviour) bool { return hasOps(b, "set", "save") }
		c.PostRun = func(ev *Evidence) ([]string, []string, error) { return decoderTotality(id, tier, seed, col, ev) }
		c.Rule = "library writes, independent decoder reads: after every step of IavlStore.tla behaviours the raw store is decoded by a decoder that shares no code with the library and compared with Disk (keys, values, heights, sizes, node versions, child links, root markers, stored hashes); specification writes, library reads: at commits and at the end the expected physical state is written into an empty store by an independent encoder (reference forms with nonce 0 and 1) and the library must load every version with the same contents and hashes; decoders: every valid encoding seen (plus legacy nodes, legacy children, old reference roots) is mutated (all truncations, 8 substitution bytes per position, inflated lengths, 10/11-byte varints) and, with short hostile strings, decoded by TLC with NodeCodec.tla; MakeNode, MakeLegacyNode, fastnode.DeserializeNode, the varint/uvarint/bytes decoders and the root-marker reader must agree with TLC on acceptance and on every decoded field and must not panic; random bytes are checked for panics only (sampling)"
	case "C06":
		c.Classes = exec.Classes{}
		c.ParkPoints = []string{"save:before-commit", "save:committed", "prune:version", "get:fastnode"}
		c.Sim.K, c.Sim.D = 6, 30
		c.Sim.Num = tierNum(tier, 10, 60) // schedule replays run one at a time (the yield hook is one variable)
		c.ShortNum = 0
		c.Sim.Classes = []string{"set", "set", "set", "set", "rm", "rmhit", "rmhit", "save", "save", "save", "save", "rollback", "reopen", "delto", "deltook", "deltook", "savecs", "expopen", "expopen", "expclose"}
		c.Configure = func(rng *rand.Rand, cfg *exec.Config) {
			// small thresholds make the batch flush fast-index changes before the commit
			cfg.Flush = []int{150, 300, 100000}[rng.Intn(3)]
		}
		c.Nontrivial = func(b *model.Behaviour) bool { return hasOps(b, "set", "save", "rm") }
		for _, async := range []string{"FALSE", "TRUE"} {
			c.Mc = append(c.Mc, concMc(tierNum(tier, 2, 3), "FALSE", "TRUE", "TRUE", async))
		}
		c.PostRun = func(ev *Evidence) ([]string, []string, error) {
			if err := concVacuityGuard(ev); err != nil {
				return nil, nil, err
			}
			gv, err := storageGateReplay(id, tier, seed, ev)
			if err != nil {
				return nil, nil, err
			}
			rv, kn, err := raceStress(id, tier, seed, ev)
			gv = append(gv, runScenarios(id, seed, ev, map[string]func() string{
				"async-prune-pin/index-on":  allScenarios["async-prune-pin/index-on"],
				"async-prune-pin/index-off": allScenarios["async-prune-pin/index-off"],
			})...)
			return append(gv, rv...), kn, err
		}
		c.Rule = "schedule replay at the granularity of the verif yield hooks: for every SaveVersion / SaveChangeSet / DeleteVersionsTo step of Iavl.tla behaviours the writer runs in its own goroutine and is parked at save:before-commit (the batch may already have flushed index changes), save:committed (written, latest version not yet published) and between the per-version steps of a prune; at every park point reader calls (GetImmutable, Get, Has, GetWithIndex, GetByIndex, Iterate, Hash) on every committed version the running call does not delete are compared with that version's contents from the specification; in addition readers are parked between their fast-node read and the latest-version check while the writer runs the whole call; IavlConc.tla is model-checked for ReadCommitted, NoRace and PinHolds (all interleavings of the bounded instance); data races are judged by the Go race detector on a free-running stress (separate -race binary) in which the writer also deletes versions nobody reads, synchronously or through background pruning (AsyncPruningOption with SetCommitting/UnsetCommitting around commits), and every version the readers could still read is re-read after a restart; storage-gate schedules: a reader is stopped inside its j-th storage read (before the read, or after it with the answer held back; cold and warm caches) while the writer runs a whole commit or deletion, then the reader's answer and all later reads are compared - the schedule TLC finds when the fast-node lookup of IavlConc.tla is split; TLC must refute the as-found / split variants of IavlConc.tla (vacuity guard); exports: a second export of a pinned version is opened and closed twice without unpinning it"
	case "C16":
		c.Classes = exec.Classes{Reads: true, Hash: true, Versions: true, Proof: true}
		c.Mc = []McSpec{{Module: "MCIavlLegacy", Workers: 16, Timeout: 20 * time.Minute, CfgText: fmt.Sprintf("SPECIFICATION LSpecB\nCONSTANTS\n  K = 2\n  V = 2\n  IVs = {0}\n  D = 0\n  MaxVer = %d\n  MaxOps = 2\n  Classes <- SimClasses\n  LegacyClasses <- LegacyCl\n  Record = FALSE\nVIEW lview\nINVARIANTS InvContents InvShape InvRange InvBoundary\nCHECK_DEADLOCK FALSE\n", tierNum(tier, 3, 4))}}
		c.Sim.Module, c.Sim.Spec = "MCIavlLegacy", "LSpecSim"
		c.Sim.K, c.Sim.D, c.Sim.IVs = 6, 34, "{0}"
		c.Sim.Num = tierNum(tier, 6, 120)
		c.ShortNum = 0
		c.Sim.Classes = []string{"set", "set", "set", "rm", "save", "save", "save", "save", "rollback", "reopen", "reopen", "load", "lvfo", "lvfo", "delto", "delto", "delto", "delto"}
		c.Sim.ExtraDefs = `GenLegacyCl == <<"set", "set", "set", "set", "rm", "save", "save", "save", "migrate">>`
		c.Sim.ExtraConst = "  LegacyClasses <- GenLegacyCl\n"
		c.ConfigsPer = tierNum(tier, 2, 3)
		c.Configure = func(rng *rand.Rand, cfg *exec.Config) {
			cfg.Backend = "mem" // replaced by the legacy GoLevelDB directory at the migration
			cfg.Pal.WithoutEmptyValue()
		}
		c.Nontrivial = func(b *model.Behaviour) bool { return hasOps(b, "migrate", "save") }
		// focused family: rollback to a legacy version below the boundary, new commits, then a prune at or
		// above the new boundary (the legacy orphan records of the rolled-back versions are still there)
		fam := c.Sim
		fam.Num = tierNum(tier, 25, 120)
		fam.Classes = []string{"set", "set", "set", "rm", "save", "save", "save", "lvfoleg", "deltoabove", "deltoabove", "reopen"}
		c.Families = []Family{{Name: "legacy-rollback-then-prune", Sim: fam, Max: tierNum(tier, 6, 60), Select: rollbackThenPrune}}
		c.Rule = "IavlLegacy.tla behaviours: a legacy phase (sets, removals, commits, a legacy-side deletion of the oldest d versions) executed by the LEGACY library (iavl v0.20.0 from the module cache, /verif/legacygen, legacy fast index on/off) into a GoLevelDB directory, then the new library on the same directory: commits with and without writes on the legacy root, DeleteVersionsTo below / at / above the boundary, LoadVersionForOverwriting to legacy versions, reopenings, loads of legacy versions; three-way check at the migration: hash and contents the legacy library recorded = SHA-256 over the specification's tree; after every later step all reads, hashes, proofs and version queries of every retained version (legacy and new) are compared with the specification; non-trivial = contains a migration and a commit"
	default:
		return nil, fmt.Errorf("no check registered for %s", id)
	}
	_ = rand.Int
	// every history of 3 (quick) / 4 (thorough) calls from the empty store: 7 250 / 118 106 behaviours
	if id == "C01" || id == "C02" || id == "C03" || id == "C08" || id == "C09" || id == "C11" || id == "C14" || id == "C15" {
		c.ExhD, c.ExhK = tierNum(tier, 3, 4), 2
	}
	// implementation -> specification: recorded random histories validated by TLC against IavlTrace.tla
	traceNum := map[string]int{"C01": 16, "C02": 16, "C14": 16, "C08": 8, "C09": 8, "C10": 8, "C11": 8, "C15": 8}[id]
	if traceNum > 0 {
		prev := c.PostRun
		ts := traceStage(id, seed, tierNum(tier, traceNum, 20*traceNum), tierNum(tier, 150, 300))
		c.PostRun = func(ev *Evidence) ([]string, []string, error) {
			var vs, kn []string
			if prev != nil {
				v, k, err := prev(ev)
				if err != nil {
					return nil, nil, err
				}
				vs, kn = v, k
			}
			v, k, err := ts(ev)
			if err != nil {
				return nil, nil, err
			}
			if id == "C01" {
				lv, err := lruConformance(id, seed, tierNum(tier, 40, 1000), ev)
				if err != nil {
					return nil, nil, err
				}
				v = append(v, lv...)
			}
			return append(vs, v...), append(kn, k...), nil
		}
	}
	return c, nil
}
