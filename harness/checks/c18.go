package checks

import (
	"encoding/json"
	"fmt"
	"os"
	"path/filepath"
	"strings"
	"sync"
	"time"

	"verif/harness/kvprog"
	"verif/harness/model"
	"verif/harness/tlcrun"
)

type kvConf struct {
	alphabet, p1, p2 string
	maxLen           int
}

var kvConfs = []kvConf{
	{"{0, 1, 255}", "<<255>>", "<<255, 255>>", 2},
	{"{0, 1, 255}", "<<1>>", "<<255>>", 2},
	{"{0, 255}", "<<255, 255>>", "<<0>>", 2},
	{"{0, 1, 255}", "<<1, 255>>", "<<1>>", 2},
	// keys just above a prefix whose successor needs a carry (01 ff -> 02 00)
	{"{1, 2, 255}", "<<1, 255>>", "<<255>>", 2},
	{"{0, 2, 255}", "<<1, 255, 255>>", "<<2>>", 2},
}

func kvModule(c kvConf, classes []string) string {
	q := make([]string, len(classes))
	for i, x := range classes {
		q[i] = `"` + x + `"`
	}
	return fmt.Sprintf("---- MODULE GenOrderedKV ----\nEXTENDS OrderedKV\nA_ == %s\nP1_ == %s\nP2_ == %s\nCl_ == <<%s>>\n====\n", c.alphabet, c.p1, c.p2, strings.Join(q, ", "))
}

func kvCfg(spec string, c kvConf, d int, record bool, invs string) string {
	r := "FALSE"
	if record {
		r = "TRUE"
	}
	s := fmt.Sprintf("SPECIFICATION %s\nCONSTANTS\n  Alphabet <- A_\n  MaxKeyLen = %d\n  P1 <- P1_\n  P2 <- P2_\n  D = %d\n  Classes <- Cl_\n  Record = %s\n", spec, c.maxLen, d, r)
	if invs != "" {
		s += "INVARIANTS " + invs + "\n"
	}
	return s + "CHECK_DEADLOCK FALSE\n"
}

// RunC18 is the check of C18.
func RunC18(id, tier string, seed int64) int {
	start := time.Now()
	ev := &Evidence{PropertyID: id, Tier: tier, Seed: seed, Coverage: map[string]interface{}{}}
	ev.Assumptions = []string{"Has of the empty key may return an error or false (the contract is silent, the backends differ)", "Key()/Value()/Next() are never called on an invalid iterator (the contract allows a panic there)"}
	fail := func(code int, msg string) int {
		fmt.Println(msg)
		ev.Coverage["explanation"] = msg
		ev.Coverage["evaluations"] = 0
		ev.Coverage["distinct_nontrivial"] = 0
		_ = WriteEvidence(ev, start)
		return code
	}
	classes := []string{"setok", "setok", "setok", "setok", "set", "get", "get", "has", "delete", "delhit", "delhit", "iter", "iter", "iter", "iter", "iterall", "newbatch", "bop", "bop", "bop", "bend", "bend"}
	// 1. the contract itself, exhaustively on a small instance
	mcConf := kvConf{"{0, 255}", "<<255>>", "<<255, 0>>", 1}
	mcMod := strings.Replace(kvModule(mcConf, classes), "GenOrderedKV", "GenOrderedKV", 1)
	mcCfg := kvCfg("SpecB", mcConf, 0, false, "InvStored InvViews InvReverse")
	if tier == "quick" {
		// smaller bound for the quick tier: at most 2 stored keys is enforced through MaxKeyLen = 1 and the alphabet
		mcConf = kvConf{"{255}", "<<255>>", "<<255, 0>>", 1}
		mcMod = kvModule(mcConf, classes)
		mcCfg = kvCfg("SpecB", mcConf, 0, false, "InvStored InvViews InvReverse")
	}
	mr, err := tlcrun.Run(tlcrun.Opts{Module: "GenOrderedKV", CfgText: mcCfg, Files: map[string]string{"GenOrderedKV.tla": mcMod}, Workers: 16, Timeout: 25 * time.Minute})
	if err != nil {
		return fail(2, "INCONCLUSIVE: "+err.Error())
	}
	if mr.Violation != "" {
		return fail(2, "INCONCLUSIVE: TLC reports a violated invariant on OrderedKV.tla: "+mr.Violation)
	}
	states, transitions := mr.Distinct, mr.Generated
	// 2. programs
	num := tierNum(tier, 25, 1500)
	type gen struct {
		r   *tlcrun.Result
		err error
	}
	gens := make([]gen, len(kvConfs)*2)
	var wg sync.WaitGroup
	for ci, c := range kvConfs {
		for rep := 0; rep < 2; rep++ {
			wg.Add(1)
			go func(ci, rep int, c kvConf) {
				defer wg.Done()
				r, err := tlcrun.Run(tlcrun.Opts{Module: "GenOrderedKV", CfgText: kvCfg("Spec", c, 28, true, "InvStored"), Files: map[string]string{"GenOrderedKV.tla": kvModule(c, classes)},
					Workers: 1, Simulate: fmt.Sprintf("num=%d", num), Depth: 32, Seed: seed*100 + int64(ci*2+rep), Tag: "TRACE", Timeout: 20 * time.Minute, JavaOpts: "-Xmx3g"})
				gens[ci*2+rep] = gen{r, err}
			}(ci, rep, c)
		}
	}
	wg.Wait()
	var progs []*kvprog.Program
	seen := map[string]bool{}
	for _, g := range gens {
		if g.err != nil {
			return fail(2, "INCONCLUSIVE: "+g.err.Error())
		}
		if g.r.Violation != "" {
			return fail(2, "INCONCLUSIVE: TLC: "+g.r.Violation)
		}
		transitions += g.r.Generated
		for _, line := range g.r.Lines {
			js, ok := model.ExtractJSON(line, "TRACE")
			if !ok || seen[js] {
				continue
			}
			seen[js] = true
			p, err := kvprog.Parse(js)
			if err != nil {
				return fail(2, "INCONCLUSIVE: "+err.Error())
			}
			progs = append(progs, p)
		}
	}
	if len(progs) == 0 {
		return fail(2, "INCONCLUSIVE: no program generated")
	}
	type res struct {
		p       *kvprog.Program
		backend string
		msg     string
	}
	backends := []string{"mem", "level"}
	out := make([]res, len(progs)*len(backends))
	sem := make(chan struct{}, 14)
	for i, p := range progs {
		for bi, be := range backends {
			wg.Add(1)
			sem <- struct{}{}
			go func(i, bi int, p *kvprog.Program, be string) {
				defer wg.Done()
				defer func() { <-sem }()
				out[i*len(backends)+bi] = res{p, be, kvprog.Run(p, be)}
			}(i, bi, p, be)
		}
	}
	wg.Wait()
	var violations []string
	replayDir := filepath.Join(OutDir, "evidence", "replays")
	if old, _ := filepath.Glob(filepath.Join(replayDir, id+"-*.json")); len(old) > 0 {
		for _, f := range old {
			_ = os.Remove(f)
		}
	}
	opCount := map[string]int{}
	for _, p := range progs {
		for _, o := range p.Ops {
			opCount[o.Op]++
		}
	}
	for _, r := range out {
		if r.msg == "" {
			continue
		}
		_ = os.MkdirAll(replayDir, 0o755)
		path := filepath.Join(replayDir, fmt.Sprintf("%s-%d-%d.json", id, seed, len(violations)))
		b, _ := json.MarshalIndent(map[string]interface{}{"property": id, "kind": "kvprog", "backend": r.backend, "program": r.p, "summary": r.p.String(), "observed": r.msg}, "", " ")
		_ = os.WriteFile(path, b, 0o644)
		violations = append(violations, fmt.Sprintf("VIOLATION property=%s replay=%s", id, path))
		if len(violations) <= 6 {
			fmt.Printf("  backend %s (+ PrefixDB, nested PrefixDB): %s\n    program: %s\n", r.backend, firstLine(r.msg), truncate(r.p.String(), 400))
		}
	}
	// regression witnesses of repaired defects
	wfiles, _ := filepath.Glob(filepath.Join(VerifDir, "findings", id+"-*.json"))
	witnesses := 0
	for _, wf := range wfiles {
		bts, err := os.ReadFile(wf)
		if err != nil {
			continue
		}
		var rf struct {
			Kind    string          `json:"kind"`
			Backend string          `json:"backend"`
			Program *kvprog.Program `json:"program"`
		}
		if json.Unmarshal(bts, &rf) != nil || rf.Kind != "kvprog" || rf.Program == nil {
			continue
		}
		witnesses++
		if msg := kvprog.Run(rf.Program, rf.Backend); msg != "" {
			fmt.Printf("  regression witness %s fails again: %s\n", filepath.Base(wf), firstLine(msg))
			violations = append(violations, fmt.Sprintf("VIOLATION property=%s replay=%s", id, wf))
		}
	}
	ev.Coverage["regression_witnesses_replayed"] = witnesses
	var samples []interface{}
	for i := 0; i < len(progs) && i < 3; i++ {
		samples = append(samples, progs[i].String())
	}
	ev.Coverage["states"] = states
	ev.Coverage["transitions"] = transitions
	ev.Coverage["traces_validated_against_impl"] = len(out)
	ev.Coverage["samples"] = samples
	ev.Coverage["evaluations"] = len(out)
	ev.Coverage["distinct_nontrivial"] = len(progs)
	ev.Coverage["rule"] = "programs of 28 calls generated by tlc -simulate from OrderedKV.tla over three handles on one physical store (the store itself, a prefix view, a nested prefix view; prefixes with 0xFF runs; keys over {00, 01, ff} incl. the empty key, nil and empty values, bounds nil/empty/equal to/between/outside stored keys, forward and reverse iterators, batches incl. use after Write/Close), executed on MemDB and GoLevelDB each with PrefixDB and nested PrefixDB on top; every result (values, existence, errors as error/no error, full iterator sequences, Domain, validity after exhaustion) and the final physical store are compared with the specification; every program is distinct and contains writes, iterators and batch operations"
	ev.Coverage["exhaustive"] = false
	ev.Coverage["model_checking_exhaustive_on_bounded_instance"] = mr.Finished
	ev.Coverage["programs"] = len(progs)
	ev.Coverage["call_counts"] = opCount
	ev.Violations = len(violations)
	if err := WriteEvidence(ev, start); err != nil {
		fmt.Println("INCONCLUSIVE:", err)
		return 2
	}
	if len(violations) > 0 {
		for _, l := range violations {
			fmt.Println(l)
		}
		return 1
	}
	fmt.Printf("OK property=%s tier=%s seed=%d: %d programs x %d physical stores (each with prefix and nested prefix views), contract model: %d states, %.0fs\n", id, tier, seed, len(progs), len(backends), states, time.Since(start).Seconds())
	return 0
}

// ReplayKV re-runs one program.
func ReplayKV(path string) (bool, int) {
	b, err := os.ReadFile(path)
	if err != nil {
		return false, 2
	}
	var rf struct {
		Property string          `json:"property"`
		Kind     string          `json:"kind"`
		Backend  string          `json:"backend"`
		Program  *kvprog.Program `json:"program"`
	}
	if json.Unmarshal(b, &rf) != nil || rf.Kind != "kvprog" {
		return false, 0
	}
	if msg := kvprog.Run(rf.Program, rf.Backend); msg != "" {
		fmt.Println(firstLine(msg))
		fmt.Printf("VIOLATION property=%s replay=%s\n", rf.Property, path)
		return true, 1
	}
	fmt.Println("replay passes on the current tree")
	return true, 0
}
