package checks

import (
	"verif/harness/exec"
	"verif/harness/model"
)

// findingOwner maps a finding id to the property it is listed under.
var findingOwner = map[string]string{
	"F-C07a": "C07",
}

// classifyV1 maps an observation that differs from the specification to the listed finding
// whose signature it matches; "" if none does.
func classifyV1(v *exec.Violation, b *model.Behaviour, c exec.Config) string {
	return ""
}
