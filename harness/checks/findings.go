package checks

import (
	"strings"

	"verif/harness/exec"
	"verif/harness/model"
)

// findingOwner maps a finding id to the property it is listed under.
var findingOwner = map[string]string{
	"F-C07a":  "C07",
	"F-C16-1": "C16",
	"F-C16-3": "C16",
}

// classifyV1 maps an observation that differs from the specification to the listed finding
// whose signature it matches; "" if none does.
func classifyV1(v *exec.Violation, b *model.Behaviour, c exec.Config) string {
	// F-C16-3: rollback across the legacy boundary at a small flush threshold fails with "Value missing"
	if v.Class == "lvfo" && strings.Contains(v.Observed, "Value missing for key") && v.Step >= 0 && v.Step < len(b.Steps) {
		boundary := int64(0)
		for _, s := range b.Steps[:v.Step] {
			if s.Op == "migrate" {
				boundary = s.Ret.Ver
			}
		}
		t := b.Steps[v.Step].Args.T
		if boundary != 0 && t <= boundary-2 && c.Flush < 100000 {
			return "F-C16-3"
		}
	}
	return ""
}
