package checks

import (
	"bytes"
	"encoding/binary"
	"encoding/json"
	"fmt"
	"math/rand"
	"os"
	"path/filepath"
	"runtime/debug"
	"sort"
	"strings"
	"time"

	"github.com/cosmos/iavl"
	dbm "github.com/cosmos/iavl/db"
	"github.com/cosmos/iavl/fastnode"

	"verif/harness/exec"
	"verif/harness/model"
	"verif/harness/tlcrun"
)

// decoded mirrors the JSON TLC prints for DecodeAll (NodeCodec.tla).
type decRef struct {
	Ver    *int64 `json:"ver"`
	ID     *int64 `json:"id"`
	Legacy []int  `json:"legacy"`
}
type decNode struct {
	Err     bool            `json:"err"`
	Unknown bool            `json:"unknown"`
	Kind    string          `json:"kind"`
	H       int64           `json:"h"`
	Sz      int64           `json:"sz"`
	Ver     int64           `json:"ver"`
	ID      int64           `json:"id"`
	Key     []int           `json:"key"`
	Val     json.RawMessage `json:"val"`
	Hash    []int           `json:"hash"`
	L       json.RawMessage `json:"l"`
	R       json.RawMessage `json:"r"`
	Next    int             `json:"next"`
}
type decAll struct {
	N decNode `json:"n"`
	L decNode `json:"l"`
	F decNode `json:"f"`
	R decNode `json:"r"`
	V decNode `json:"v"`
	U decNode `json:"u"`
	B decNode `json:"b"`
}

const big = 1073741824

func ints(b []byte) string {
	parts := make([]string, len(b))
	for i, x := range b {
		parts[i] = fmt.Sprint(x)
	}
	return "<<" + strings.Join(parts, ",") + ">>"
}

func toBytes(a []int) []byte {
	out := make([]byte, len(a))
	for i, x := range a {
		out[i] = byte(x)
	}
	return out
}

func rawBytes(m json.RawMessage) ([]byte, bool) {
	var a []int
	if json.Unmarshal(m, &a) != nil {
		return nil, false
	}
	return toBytes(a), true
}

// tlcDecode lets TLC decode the inputs with NodeCodec.tla.
func tlcDecode(inputs [][]byte) ([]decAll, *tlcrun.Result, error) {
	var sb strings.Builder
	sb.WriteString("---- MODULE DecodeBatch ----\nEXTENDS NodeCodec, Json\nVARIABLE x\nInputs == <<\n")
	for i, in := range inputs {
		if i > 0 {
			sb.WriteString(",\n")
		}
		sb.WriteString(ints(in))
	}
	sb.WriteString("\n>>\nASSUME PrintT(<<\"DEC\", ToJson([i \\in 1..Len(Inputs) |-> DecodeAll(Inputs[i])])>>)\nSpec == x = 0 /\\ [][x' = x]_x\n====\n")
	r, err := tlcrun.Run(tlcrun.Opts{Module: "DecodeBatch", CfgText: "SPECIFICATION Spec\nCHECK_DEADLOCK FALSE\n", Files: map[string]string{"DecodeBatch.tla": sb.String()},
		Workers: 1, Tag: "DEC", Timeout: 15 * time.Minute, JavaOpts: "-Xmx6g"})
	if err != nil {
		return nil, r, err
	}
	if len(r.Lines) == 0 {
		return nil, r, fmt.Errorf("TLC printed no decoding result: %s", lastLines(r.Output, 10))
	}
	js, ok := model.ExtractJSON(r.Lines[0], "DEC")
	if !ok {
		return nil, r, fmt.Errorf("unparsable DEC line")
	}
	var out []decAll
	if err := json.Unmarshal([]byte(js), &out); err != nil {
		return nil, r, err
	}
	if len(out) != len(inputs) {
		return nil, r, fmt.Errorf("TLC decoded %d of %d inputs", len(out), len(inputs))
	}
	return out, r, nil
}

func safely(f func()) (panicked string) {
	defer func() {
		if r := recover(); r != nil {
			panicked = fmt.Sprintf("%v\n%s", r, debug.Stack())
		}
	}()
	f()
	return ""
}

func refMatches(m json.RawMessage, key []byte) bool {
	var r decRef
	if json.Unmarshal(m, &r) != nil {
		return false
	}
	if r.Legacy != nil {
		return bytes.Equal(toBytes(r.Legacy), key)
	}
	if r.Ver == nil || r.ID == nil || len(key) != 12 {
		return false
	}
	ver := int64(binary.BigEndian.Uint64(key))
	id := int64(binary.BigEndian.Uint32(key[8:]))
	return (*r.Ver == big || *r.Ver == ver) && (*r.ID == big || *r.ID == id)
}

// compareDecoders runs every library decoder on the input and compares with TLC's verdict.
func compareDecoders(in []byte, d *decAll) string {
	nk := make([]byte, 12)
	binary.BigEndian.PutUint64(nk, 5)
	binary.BigEndian.PutUint32(nk[8:], 3)
	// MakeNode
	var node *iavl.Node
	var err error
	if p := safely(func() { node, err = iavl.MakeNode(nk, in) }); p != "" {
		return "MakeNode panics: " + firstLine(p)
	}
	if !d.N.Unknown {
		if (err != nil) != d.N.Err {
			return fmt.Sprintf("MakeNode: specification says error=%v, library says %v", d.N.Err, err)
		}
		if err == nil {
			v := iavl.VerifView(node)
			if int64(v.Height) != d.N.H || (d.N.Sz != big && v.Size != d.N.Sz) || !bytes.Equal(v.Key, toBytes(d.N.Key)) {
				return fmt.Sprintf("MakeNode: height/size/key = %d/%d/%x, specification %d/%d/%x", v.Height, v.Size, v.Key, d.N.H, d.N.Sz, toBytes(d.N.Key))
			}
			if d.N.Kind == "leaf" {
				val, _ := rawBytes(d.N.Val)
				if !bytes.Equal(v.Value, val) {
					return fmt.Sprintf("MakeNode: value %x, specification %x", v.Value, val)
				}
			} else {
				if !bytes.Equal(v.Hash, toBytes(d.N.Hash)) || !refMatches(d.N.L, v.LeftKey) || !refMatches(d.N.R, v.RightKey) {
					return fmt.Sprintf("MakeNode: hash/children %x %x %x differ from the specification's %s %s", v.Hash, v.LeftKey, v.RightKey, d.N.L, d.N.R)
				}
			}
		}
	}
	// MakeLegacyNode
	hash := bytes.Repeat([]byte{7}, 32)
	if p := safely(func() { node, err = iavl.MakeLegacyNode(hash, in) }); p != "" {
		return "MakeLegacyNode panics: " + firstLine(p)
	}
	if (err != nil) != d.L.Err {
		return fmt.Sprintf("MakeLegacyNode: specification says error=%v, library says %v", d.L.Err, err)
	}
	if err == nil {
		v := iavl.VerifView(node)
		if int64(v.Height) != d.L.H || (d.L.Sz != big && v.Size != d.L.Sz) || (d.L.Ver != big && v.Version != d.L.Ver) || !bytes.Equal(v.Key, toBytes(d.L.Key)) {
			return fmt.Sprintf("MakeLegacyNode: height/size/version/key = %d/%d/%d/%x, specification %d/%d/%d/%x", v.Height, v.Size, v.Version, v.Key, d.L.H, d.L.Sz, d.L.Ver, toBytes(d.L.Key))
		}
		if d.L.Kind == "leaf" {
			val, _ := rawBytes(d.L.Val)
			if !bytes.Equal(v.Value, val) {
				return "MakeLegacyNode: value differs"
			}
		} else {
			l, _ := rawBytes(d.L.L)
			r, _ := rawBytes(d.L.R)
			if !bytes.Equal(v.LeftKey, l) || !bytes.Equal(v.RightKey, r) {
				return "MakeLegacyNode: child hashes differ"
			}
		}
	}
	// fastnode.DeserializeNode
	var fn *fastnode.Node
	if p := safely(func() { fn, err = fastnode.DeserializeNode([]byte("k"), in) }); p != "" {
		return "fastnode.DeserializeNode panics: " + firstLine(p)
	}
	if (err != nil) != d.F.Err {
		return fmt.Sprintf("fastnode.DeserializeNode: specification says error=%v, library says %v", d.F.Err, err)
	}
	if err == nil {
		val, _ := rawBytes(d.F.Val)
		if (d.F.Ver != big && fn.GetVersionLastUpdatedAt() != d.F.Ver) || !bytes.Equal(fn.GetValue(), val) {
			return fmt.Sprintf("fastnode.DeserializeNode: version/value %d/%x, specification %d/%x", fn.GetVersionLastUpdatedAt(), fn.GetValue(), d.F.Ver, val)
		}
	}
	// varint / uvarint / bytes
	var iv int64
	var uv uint64
	var n int
	var bz []byte
	if p := safely(func() { iv, n, err = iavl.VerifDecodeVarint(in) }); p != "" {
		return "DecodeVarint panics: " + firstLine(p)
	}
	if (err != nil) != d.V.Err || (err == nil && (n != d.V.Next-1 || (decVal(d.V) != big && iv != decVal(d.V)))) {
		return fmt.Sprintf("DecodeVarint: (%d,%d,%v), specification (%d,%d,error=%v)", iv, n, err, decVal(d.V), d.V.Next-1, d.V.Err)
	}
	if p := safely(func() { uv, n, err = iavl.VerifDecodeUvarint(in) }); p != "" {
		return "DecodeUvarint panics: " + firstLine(p)
	}
	if (err != nil) != d.U.Err || (err == nil && (n != d.U.Next-1 || (decVal(d.U) != big && int64(uv) != decVal(d.U)))) {
		return fmt.Sprintf("DecodeUvarint: (%d,%d,%v), specification (%d,%d,error=%v)", uv, n, err, decVal(d.U), d.U.Next-1, d.U.Err)
	}
	if p := safely(func() { bz, n, err = iavl.VerifDecodeBytes(in) }); p != "" {
		return "DecodeBytes panics: " + firstLine(p)
	}
	if (err != nil) != d.B.Err {
		return fmt.Sprintf("DecodeBytes: error %v, specification error=%v", err, d.B.Err)
	}
	if err == nil {
		val, _ := rawBytes(d.B.Val)
		if !bytes.Equal(bz, val) || n != d.B.Next-1 {
			return fmt.Sprintf("DecodeBytes: (%x,%d), specification (%x,%d)", bz, n, val, d.B.Next-1)
		}
	}
	// the root reader: the bytes as the value of a root key
	msg := ""
	if p := safely(func() { msg = rootReader(in, d) }); p != "" {
		return "reading a root marker panics: " + firstLine(p)
	}
	return msg
}

func decVal(d decNode) int64 {
	var v int64
	if json.Unmarshal(d.Val, &v) == nil {
		return v
	}
	return 0
}

// rootReader stores the bytes under the root key of version 5 and asks the library for that version.
func rootReader(in []byte, d *decAll) string {
	db := dbm.NewMemDB()
	key := func(ver, id int64) []byte {
		k := make([]byte, 13)
		k[0] = 's'
		binary.BigEndian.PutUint64(k[1:], uint64(ver))
		binary.BigEndian.PutUint32(k[9:], uint32(id))
		return k
	}
	// a real leaf that a reference may point to
	leaf := []byte{0, 2, 1, 'a', 1, 'x'}
	_ = db.Set(key(1, 1), leaf) // a root under its own key
	_ = db.Set(key(2, 0), leaf) // a root that was re-keyed by pruning
	_ = db.Set(key(5, 1), in)
	t := iavl.NewMutableTree(db, 0, true, iavl.NewNopLogger())
	it, err := t.GetImmutable(5)
	// the specification's verdict
	switch {
	case d.R.Err:
		if err == nil {
			return "GetImmutable accepts a root value the specification rejects"
		}
	case d.R.Unknown:
	case d.R.Kind == "empty":
		if err != nil || it.Size() != 0 {
			return fmt.Sprintf("empty root marker: %v", err)
		}
	case d.R.Kind == "ref":
		// resolvable iff the referenced node exists: (1,1), or - for any nonce, as the reader falls back to
		// the re-keyed root of that version when the exact key is absent - (2,0)
		ok := (d.R.Ver == 1 && d.R.ID == 1) || d.R.Ver == 2
		if ok != (err == nil) {
			return fmt.Sprintf("reference root to (%d,%d): library error %v", d.R.Ver, d.R.ID, err)
		}
	default:
		if err != nil {
			return fmt.Sprintf("root key holding a decodable node: %v", err)
		}
	}
	return ""
}

// mutations of one valid encoding: truncations, single-byte substitutions, inflated lengths, long varints.
func mutations(b []byte, rng *rand.Rand, budget int) [][]byte {
	var out [][]byte
	for i := 0; i < len(b); i++ {
		out = append(out, append([]byte(nil), b[:i]...))
	}
	subs := []byte{0x00, 0x01, 0x02, 0x03, 0x7f, 0x80, 0xfe, 0xff}
	for i := 0; i < len(b); i++ {
		for _, s := range subs {
			if b[i] != s {
				m := append([]byte(nil), b...)
				m[i] = s
				out = append(out, m)
			}
		}
	}
	// a 10- and an 11-byte varint in place of the first byte, an inflated length in place of every byte
	long10 := append(bytes.Repeat([]byte{0x80}, 9), 0x01)
	long11 := append(bytes.Repeat([]byte{0x80}, 10), 0x01)
	for _, pre := range [][]byte{long10, long11, {0xff, 0xff, 0xff, 0xff, 0x0f}} {
		out = append(out, append(append([]byte(nil), pre...), b[minInt(1, len(b)):]...))
		if len(b) > 3 {
			j := 2 + rng.Intn(len(b)-2)
			m := append(append(append([]byte(nil), b[:j]...), pre...), b[j+1:]...)
			out = append(out, m)
		}
	}
	if len(out) > budget {
		rng.Shuffle(len(out), func(i, j int) { out[i], out[j] = out[j], out[i] })
		out = out[:budget]
	}
	return out
}

// decoderTotality is the third clause of C13.
func decoderTotality(id, tier string, seed int64, col *exec.RawCollector, ev *Evidence) ([]string, []string, error) {
	rng := rand.New(rand.NewSource(seed))
	var valid [][]byte
	for _, m := range []map[string]bool{col.Nodes, col.Fast, col.Marker} {
		var ks []string
		for k := range m {
			ks = append(ks, k)
		}
		sort.Strings(ks)
		for _, k := range ks {
			valid = append(valid, []byte(k))
		}
	}
	// hand-made valid encodings the behaviours do not produce: legacy nodes, legacy children, old reference roots
	h32 := bytes.Repeat([]byte{0xab}, 32)
	valid = append(valid,
		[]byte{0, 2, 6, 1, 'k', 1, 'v'}, // legacy leaf: height 0, size 1, version 3
		append(append([]byte{2, 4, 6, 1, 'k', 32}, h32...), append([]byte{32}, h32...)...),                             // legacy inner
		append(append(append([]byte{2, 4, 1, 'k', 32}, h32...), 6, 32), append(h32, append([]byte{32}, h32...)...)...), // inner with two legacy children (mode 3)
		append([]byte{'s'}, 0, 0, 0, 0, 0, 0, 0, 2),                                                                    // old-style reference root
	)
	perValid := 60
	cap := 6000
	if tier == "thorough" {
		perValid, cap = 400, 60000
	}
	seen := map[string]bool{}
	var inputs [][]byte
	add := func(b []byte) {
		if len(b) <= 120 && !seen[string(b)] && len(inputs) < cap {
			seen[string(b)] = true
			inputs = append(inputs, b)
		}
	}
	for _, v := range valid {
		add(v)
	}
	nvalid := len(inputs)
	rng.Shuffle(len(valid), func(i, j int) { valid[i], valid[j] = valid[j], valid[i] })
	for _, v := range valid {
		for _, m := range mutations(v, rng, perValid) {
			add(m)
		}
	}
	nmut := len(inputs) - nvalid
	// short random strings over a hostile alphabet (these also get a TLC verdict)
	for i := 0; i < cap/6; i++ {
		b := make([]byte, rng.Intn(14))
		for j := range b {
			b[j] = []byte{0, 1, 2, 3, 0x20, 0x7f, 0x80, 0x81, 0xfe, 0xff, 's', byte(rng.Intn(256))}[rng.Intn(12)]
		}
		add(b)
	}
	dec, tr, err := tlcDecode(inputs)
	if err != nil {
		return nil, nil, fmt.Errorf("batch decoding with NodeCodec.tla: %v", err)
	}
	var violations []string
	replayDir := filepath.Join(OutDir, "evidence", "replays")
	report := func(in []byte, msg string) {
		_ = os.MkdirAll(replayDir, 0o755)
		path := filepath.Join(replayDir, fmt.Sprintf("%s-decoder-%d-%d.json", id, seed, len(violations)))
		b, _ := json.MarshalIndent(map[string]interface{}{"property": id, "kind": "decoder-input", "input_hex": fmt.Sprintf("%x", in), "observed": msg}, "", " ")
		_ = os.WriteFile(path, b, 0o644)
		violations = append(violations, fmt.Sprintf("VIOLATION property=%s replay=%s", id, path))
		if len(violations) <= 5 {
			fmt.Printf("  decoder input %x: %s\n", in, msg)
		}
	}
	accepted := 0
	for i, in := range inputs {
		if !dec[i].N.Err {
			accepted++
		}
		if msg := compareDecoders(in, &dec[i]); msg != "" {
			report(in, msg)
		}
	}
	// random bytes: no panic, no hang (sampling, no TLC verdict)
	nrand := 300000
	if tier == "thorough" {
		nrand = 20000000
	}
	start := time.Now()
	nk := make([]byte, 12)
	for i := 0; i < nrand && len(violations) < 20; i++ {
		b := make([]byte, rng.Intn(40))
		rng.Read(b)
		if i%3 == 0 && len(valid) > 0 { // a valid encoding with random damage
			v := valid[rng.Intn(len(valid))]
			b = append([]byte(nil), v...)
			for k := 0; k < 1+rng.Intn(3) && len(b) > 0; k++ {
				b[rng.Intn(len(b))] = byte(rng.Intn(256))
			}
		}
		if p := safely(func() {
			_, _ = iavl.MakeNode(nk, b)
			_, _ = iavl.MakeLegacyNode(h32, b)
			_, _ = fastnode.DeserializeNode([]byte("k"), b)
			_, _, _ = iavl.VerifDecodeBytes(b)
			_, _, _ = iavl.VerifDecodeVarint(b)
			_, _, _ = iavl.VerifDecodeUvarint(b)
		}); p != "" {
			report(b, "a decoder panics on random bytes: "+firstLine(p))
		}
	}
	ev.Coverage["decoder_inputs_with_tlc_verdict"] = len(inputs)
	ev.Coverage["decoder_inputs_valid_encodings"] = nvalid
	ev.Coverage["decoder_inputs_mutations"] = nmut
	ev.Coverage["decoder_inputs_accepted_as_node_by_spec"] = accepted
	ev.Coverage["decoder_random_inputs_no_panic_only"] = nrand
	ev.Coverage["decoder_random_seconds"] = time.Since(start).Seconds()
	ev.Coverage["transitions"] = ev.Coverage["transitions"].(int64) + tr.Generated
	ev.Coverage["traces_validated_against_impl"] = ev.Coverage["traces_validated_against_impl"].(int) + len(inputs)
	if sm, ok := ev.Coverage["samples"].([]interface{}); ok && len(inputs) > nvalid+1 {
		ev.Coverage["samples"] = append(sm, map[string]interface{}{"decoder_input_valid": fmt.Sprintf("%x", inputs[0])}, map[string]interface{}{"decoder_input_mutated": fmt.Sprintf("%x", inputs[nvalid+1])})
	}
	return violations, nil, nil
}

// ReplayDecoder re-runs one decoder input.
func ReplayDecoder(path string) (bool, int) {
	b, err := os.ReadFile(path)
	if err != nil {
		return false, 2
	}
	var rf struct {
		Property string `json:"property"`
		Kind     string `json:"kind"`
		Hex      string `json:"input_hex"`
	}
	if json.Unmarshal(b, &rf) != nil || rf.Kind != "decoder-input" {
		return false, 0
	}
	var in []byte
	fmt.Sscanf(rf.Hex, "%x", &in)
	dec, _, err := tlcDecode([][]byte{in})
	if err != nil {
		fmt.Println("INCONCLUSIVE:", err)
		return true, 2
	}
	if msg := compareDecoders(in, &dec[0]); msg != "" {
		fmt.Println(msg)
		fmt.Printf("VIOLATION property=%s replay=%s\n", rf.Property, path)
		return true, 1
	}
	fmt.Println("replay passes on the current tree")
	return true, 0
}
