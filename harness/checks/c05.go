package checks

import (
	"encoding/binary"
	"encoding/json"
	"fmt"
	"math/rand"
	"os"
	"path/filepath"
	"strings"
	"sync"
	"time"

	"github.com/cosmos/iavl"

	"verif/harness/fault"
	"verif/harness/faultdb"
	"verif/harness/model"
	"verif/harness/palette"
	"verif/harness/tlcrun"
)

type crashViolation struct {
	Kind      string          `json:"kind"`
	Property  string          `json:"property"`
	Behaviour json.RawMessage `json:"behaviour"`
	Summary   string          `json:"summary"`
	Palette   string          `json:"palette"`
	PalSeed   int64           `json:"palseed"`
	K         int             `json:"k"`
	Cache     int             `json:"cache"`
	Flush     int             `json:"flush"`
	Step      int             `json:"step"`
	Op        string          `json:"op"`
	Cut       int             `json:"cut"`    // the image was taken after this physical write of the operation (1-based)
	Writes    int             `json:"writes"` // physical writes of the operation
	Fast      bool            `json:"fast"`   // how the image was reopened
	Msg       string          `json:"msg"`
	Class     string          `json:"class"`
}

// retry re-executes the interrupted operation on a recovered store and returns the error, if any.
func retryOp(img map[string][]byte, b *model.Behaviour, step int, pal *palette.Palette, fast bool, flush int) (map[string][]byte, error) {
	db := faultdb.Restore(img)
	s := b.Steps[step]
	opts := []iavl.Option{iavl.FlushThresholdOption(flush)}
	if s.IV != 0 {
		opts = append(opts, iavl.InitialVersionOption(uint64(s.IV)))
	}
	t := iavl.NewMutableTree(db, 0, !fast, iavl.NewNopLogger(), opts...)
	defer t.Close()
	switch s.Op {
	case "save", "savecs":
		// the version is committed from the version the handle had loaded: load it, re-apply the writes, commit
		// (a restarted process loads the latest version - which is also what clears the residue of the
		// interrupted commit; only a handle that had loaded an older version loads that one)
		pred := s.Ret.Pred
		if step > 0 && b.Steps[step-1].Latest == pred {
			if v, err := t.Load(); err != nil || v != pred {
				return nil, fmt.Errorf("retry: Load() = %d, %v (expected %d)", v, err, pred)
			}
		} else if _, err := t.LoadVersion(pred); err != nil {
			return nil, fmt.Errorf("retry: LoadVersion(%d): %w", pred, err)
		}
		// the uncommitted writes of this version
		start := step
		for start > 0 {
			o := b.Steps[start-1].Op
			if o == "set" || o == "rm" || o == "setnil" {
				start--
			} else {
				break
			}
		}
		for j := start; j < step; j++ {
			w := b.Steps[j]
			switch w.Op {
			case "set":
				if _, err := t.Set(pal.Key(w.Args.K), pal.Value(w.Args.V)); err != nil {
					return nil, err
				}
			case "rm":
				if _, _, err := t.Remove(pal.Key(w.Args.K)); err != nil {
					return nil, err
				}
			}
		}
		if s.Op == "savecs" {
			cs := &iavl.ChangeSet{}
			for _, c := range s.Args.CS {
				kp := &iavl.KVPair{Key: pal.Key(c.K), Delete: c.Del}
				if !c.Del {
					kp.Value = pal.Value(c.V)
				}
				cs.Pairs = append(cs.Pairs, kp)
			}
			if _, err := t.SaveChangeSet(cs); err != nil {
				return nil, fmt.Errorf("retry: SaveChangeSet: %w", err)
			}
		} else if _, _, err := t.SaveVersion(); err != nil {
			return nil, fmt.Errorf("retry: SaveVersion: %w", err)
		}
	case "delto":
		if _, err := t.Load(); err != nil {
			return nil, fmt.Errorf("retry: Load: %w", err)
		}
		if err := t.DeleteVersionsTo(s.Args.N); err != nil {
			return nil, fmt.Errorf("retry: DeleteVersionsTo(%d): %w", s.Args.N, err)
		}
	case "lvfo":
		if err := t.LoadVersionForOverwriting(s.Args.T); err != nil {
			return nil, fmt.Errorf("retry: LoadVersionForOverwriting(%d): %w", s.Args.T, err)
		}
	default:
		// opens and loads: loading again is the retry
		if _, err := t.Load(); err != nil {
			return nil, fmt.Errorf("retry: Load: %w", err)
		}
	}
	return faultdb.Dump(db), nil
}

// uncommittedOnlyWrites reports whether the steps right before `step` back to the previous non-write
// step are only set/rm (so that the retry of a commit can re-apply them).
func retryable(b *model.Behaviour, step int) bool {
	s := b.Steps[step]
	switch s.Op {
	case "save", "savecs":
		start := step
		for start > 0 {
			o := b.Steps[start-1].Op
			if o == "set" || o == "rm" || o == "setnil" {
				start--
			} else {
				break
			}
		}
		if start == 0 {
			return false
		}
		// the step before the writes must leave a clean working tree (no pending writes from before)
		prev := b.Steps[start-1]
		if prev.Work != nil && prev.Work.Ver == 0 {
			return false
		}
		p := prev.Op
		clean := p == "open" || p == "reopen" || p == "reopenat" || p == "rollback" ||
			((p == "save" || p == "savecs" || p == "load" || p == "lvfo") && !prev.Ret.Err)
		return clean
	}
	return true
}

func crashOne(b *model.Behaviour, pal *palette.Palette, palName string, palSeed int64, k, cache, flush int) (events map[string]*faultEvent, viols []crashViolation, images int, multi int) {
	events = map[string]*faultEvent{}
	r := &fault.Runner{B: b, Pal: pal, Cache: cache, Flush: flush, Probe: false}
	r.SnapImages = true
	r.Run(-1, -1)
	for _, o := range r.Ops {
		if o.Panic != "" || !o.Writer || o.Err {
			continue
		}
		n := o.W1 - o.W0
		if n < 2 {
			continue
		}
		multi++
		for cut := 1; cut < n; cut++ {
			img := r.FDB.Images[o.W0+cut-1]
			for _, fast := range []bool{false, true} {
				images++
				rec := fault.Durable(img, b, o.Step, pal, fast, nil)
				ev := faultEvent{Kind: "crash", Op: o.Name, Recovered: rec}
				mk := func(class, msg string) crashViolation {
					return crashViolation{Kind: "crash", Behaviour: json.RawMessage(b.Raw), Summary: b.Summary(), Palette: palName, PalSeed: palSeed, K: k, Cache: cache, Flush: flush,
						Step: o.Step, Op: o.Name, Cut: cut, Writes: n, Fast: fast, Msg: msg, Class: class}
				}
				if rec != "pre" && rec != "post" && rec != "pre=post" {
					class := "mixture"
					if strings.HasPrefix(rec, "Load() fails") || strings.HasPrefix(rec, "Load() panics") {
						class = "rejected"
					}
					// signatures of the listed findings
					switch b.Steps[o.Step].Op {
					case "delto":
						// a multi-version prune cut between two versions: an intermediate first version, everything listed intact
						pre := fault.StateAfter(b, o.Step-1)
						var alts []*fault.State
						for m := pre.First; m < b.Steps[o.Step].Args.N; m++ {
							a := &fault.State{First: m + 1, Latest: pre.Latest, Saved: map[int64]*model.Tree{}}
							for v, t := range pre.Saved {
								if v > m {
									a.Saved[v] = t
								}
							}
							alts = append(alts, a)
						}
						if fault.DurableAlt(img, b, o.Step, pal, fast, nil, alts) == "alt" {
							class = "intermediate-range"
						}
					case "lvfo":
						// a rollback cut inside its ascending range delete: nothing the target state needs is lost and
						// nothing foreign is present (s key space between Disk(post) and Disk(pre))
						if b.Phys != nil && betweenDisks(img, b.Phys[o.Step-1], b.Phys[o.Step]) {
							class = "partial-range-delete"
						}
					}
					viols = append(viols, mk(o.Name+"/"+class, fmt.Sprintf("a stop after physical write %d of %d of %s leaves a store that reopens (index %v) to %s", cut, n, o.Name, onoff(fast), rec)))
					continue
				}
				// retry
				ev.Retry = "n/a"
				if retryable(b, o.Step) {
					after, err := retryOp(img, b, o.Step, pal, fast, flush)
					if err != nil {
						class := "retry-fails"
						// the listed rollback finding: the image is a strictly partial range delete (Load() may repair it
						// as residue when the remaining later versions only reference erased roots; a rollback repeated
						// on the image itself still finds a wrong version range)
						if b.Steps[o.Step].Op == "lvfo" && b.Phys != nil && betweenDisks(img, b.Phys[o.Step-1], b.Phys[o.Step]) && !betweenDisks(img, b.Phys[o.Step], b.Phys[o.Step]) {
							class = "partial-range-delete"
						}
						viols = append(viols, mk(o.Name+"/"+class, fmt.Sprintf("after a stop at write %d of %d (recovered to %s) repeating %s fails: %v", cut, n, rec, o.Name, err)))
						continue
					}
					ev.Retry = fault.Durable(after, b, o.Step, pal, fast, nil)
					if ev.Retry == "pre=post" {
						ev.Retry = "post"
					}
					if ev.Retry != "post" {
						viols = append(viols, mk(o.Name+"/retry-wrong", fmt.Sprintf("after a stop at write %d of %d repeating %s gives %s", cut, n, o.Name, ev.Retry)))
						continue
					}
				} else {
					ev.Retry = "post" // not retried (the uncommitted writes cannot be reconstructed); recovery was judged
				}
				key := fmt.Sprintf("%s/%s/%s", ev.Op, ev.Recovered, ev.Retry)
				if e := events[key]; e != nil {
					e.N++
				} else {
					ev.N = 1
					events[key] = &ev
				}
			}
		}
	}
	return
}

func onoff(b bool) string {
	if b {
		return "on"
	}
	return "off"
}

// RunC05 is the check of C05.
func RunC05(id, tier string, seed int64) int {
	start := time.Now()
	ev := &Evidence{PropertyID: id, Tier: tier, Seed: seed, Coverage: map[string]interface{}{}}
	ev.Assumptions = []string{"each underlying batch write is atomic and ordered (the store image is copied after every successful physical write)", "a stop loses everything that was not yet written: the handle, its caches and the pending batch"}
	fail := func(code int, msg string) int {
		fmt.Println(msg)
		ev.Coverage["explanation"] = msg
		ev.Coverage["evaluations"] = 0
		ev.Coverage["distinct_nontrivial"] = 0
		_ = WriteEvidence(ev, start)
		return code
	}
	crashCfg := func(n int, v [5]string, inv string) string {
		return fmt.Sprintf("SPECIFICATION Spec\nCONSTANTS\n  N = %d\n  LabelFirst = %s\n  ResidueRecovery = %s\n  MarkerFirst = %s\n  BuildLabelLast = %s\n  WipeWhenEmpty = %s\nINVARIANTS %s\nCHECK_DEADLOCK FALSE\n", n, v[0], v[1], v[2], v[3], v[4], inv)
	}
	allTrue := [5]string{"TRUE", "TRUE", "TRUE", "TRUE", "TRUE"}
	states, transitions, mcDone, notes, err := RunMc([]McSpec{storeMc(2, 2, 2, 2, "InvContents DiskKeysUnique P5"),
		{Module: "IavlCrash", Workers: 8, Timeout: 10 * time.Minute, CfgText: crashCfg(tierNum(tier, 4, 6), allTrue, "CrashAtomic")}})
	if err == nil {
		// vacuity guard: each as-found ordering must be refuted by TLC, otherwise the design model checks nothing
		for i := 0; i < 5; i++ {
			v := allTrue
			v[i] = "FALSE"
			r, e := tlcrun.Run(tlcrun.Opts{Module: "IavlCrash", CfgText: crashCfg(4, v, "CrashAtomic"), Workers: 4, Timeout: 5 * time.Minute})
			if e != nil {
				err = e
				break
			}
			if r.Violation == "" {
				err = fmt.Errorf("IavlCrash.tla does not refute the write order (LabelFirst=%s ResidueRecovery=%s MarkerFirst=%s BuildLabelLast=%s WipeWhenEmpty=%s): the design model is vacuous", v[0], v[1], v[2], v[3], v[4])
				break
			}
			transitions += r.Generated
			notes = append(notes, fmt.Sprintf("IavlCrash with a wrong order (LabelFirst=%s ResidueRecovery=%s MarkerFirst=%s BuildLabelLast=%s WipeWhenEmpty=%s): refuted by TLC after %d states", v[0], v[1], v[2], v[3], v[4], r.Generated))
		}
	}
	if err != nil {
		return fail(2, "INCONCLUSIVE: "+err.Error())
	}
	sim := SimSpec{Module: "MCIavlStore", Spec: "SSpecSim", K: 6, V: 2, IVs: "{0, 5}", D: 16, Workers: 6, Num: tierNum(tier, 10, 300),
		Classes: []string{"set", "set", "set", "set", "rm", "rmhit", "save", "save", "save", "save", "reopen", "load", "lvfo", "lvfo", "delto", "deltook", "deltook", "savecs"}, Invs: []string{"InvContents"}}
	behs, gen, err := GenerateBehaviours(sim, seed)
	if err != nil {
		return fail(2, "INCONCLUSIVE: "+err.Error())
	}
	transitions += gen
	rng := rand.New(rand.NewSource(seed))
	type job struct {
		b       *model.Behaviour
		pal     *palette.Palette
		palName string
		palSeed int64
		flush   int
	}
	var jobs []job
	flushes := []int{150, 250, 400, 700, 100000}
	for _, b := range behs {
		for _, fl := range flushes {
			name := palette.Names[rng.Intn(len(palette.Names))]
			ps := rng.Int63()
			jobs = append(jobs, job{b, palette.New(name, sim.K, ps), name, ps, fl})
		}
	}
	type res struct {
		events map[string]*faultEvent
		viols  []crashViolation
		images int
		multi  int
	}
	out := make([]res, len(jobs))
	var wg sync.WaitGroup
	sem := make(chan struct{}, 14)
	for i := range jobs {
		wg.Add(1)
		sem <- struct{}{}
		go func(i int) {
			defer wg.Done()
			defer func() { <-sem }()
			j := jobs[i]
			e, v, n, m := crashOne(j.b, j.pal, j.palName, j.palSeed, sim.K, 0, j.flush)
			out[i] = res{e, v, n, m}
		}(i)
	}
	wg.Wait()
	known, err := LoadFindings()
	if err != nil {
		return fail(2, "INCONCLUSIVE: "+err.Error())
	}
	merged := map[string]*faultEvent{}
	images, multi := 0, 0
	var violations []string
	knownSeen := map[string]string{}
	tolerated := map[string]int{}
	classes := map[string]int{}
	replayDir := filepath.Join(OutDir, "evidence", "replays")
	if old, _ := filepath.Glob(filepath.Join(replayDir, id+"-*.json")); len(old) > 0 {
		for _, f := range old {
			_ = os.Remove(f)
		}
	}
	for _, r := range out {
		images += r.images
		multi += r.multi
		for k, e := range r.events {
			if m := merged[k]; m != nil {
				m.N += e.N
			} else {
				c := *e
				merged[k] = &c
			}
		}
		for _, v := range r.viols {
			v.Property = id
			classes[v.Class]++
			fid := crashFinding[v.Class]
			if f, ok := known[fid]; ok && fid != "" && f.Status == "known" {
				tolerated[fid]++
				if os.Getenv("VERIF_DUMP_FINDING_WITNESS") != "" {
					if _, dup := knownSeen[fid]; !dup {
						knownSeen[fid] = "dumped"
						bts, _ := json.MarshalIndent(v, "", " ")
						_ = os.WriteFile(filepath.Join(os.Getenv("VERIF_DUMP_FINDING_WITNESS"), fid+".json"), bts, 0o644)
					}
				}
				continue
			}
			_ = os.MkdirAll(replayDir, 0o755)
			path := filepath.Join(replayDir, fmt.Sprintf("%s-%d-%d.json", id, seed, len(violations)))
			bts, _ := json.MarshalIndent(v, "", " ")
			_ = os.WriteFile(path, bts, 0o644)
			violations = append(violations, fmt.Sprintf("VIOLATION property=%s replay=%s", id, path))
			if len(violations) <= 8 {
				fmt.Printf("  [%s] %s (flush threshold %d)\n    behaviour: %s\n", v.Class, truncate(v.Msg, 300), v.Flush, truncate(v.Summary, 300))
			}
		}
	}
	if os.Getenv("VERIF_DUMP_FINDING_WITNESS") != "" {
		knownSeen = map[string]string{}
	}
	// committed witnesses: regression witnesses of repaired defects must pass; the witness of a listed
	// finding decides whether its KNOWN-FINDING line is printed (only if it still reproduces)
	wfiles, _ := filepath.Glob(filepath.Join(VerifDir, "findings", "*C05-*.json"))
	witnesses := 0
	for _, wf := range wfiles {
		bts, err := os.ReadFile(wf)
		if err != nil {
			continue
		}
		var w crashViolation
		if json.Unmarshal(bts, &w) != nil || w.Kind != "crash" {
			continue
		}
		wb, err := model.ParseBehaviour(string(w.Behaviour))
		if err != nil {
			return fail(2, "INCONCLUSIVE: witness "+wf+": "+err.Error())
		}
		witnesses++
		_, wv, wn, _ := crashOne(wb, palette.New(w.Palette, w.K, w.PalSeed), w.Palette, w.PalSeed, w.K, w.Cache, w.Flush)
		images += wn
		wantFid := crashFinding[w.Class]
		reproduced := false
		for _, x := range wv {
			x.Property = id
			fid := crashFinding[x.Class]
			if f, ok := known[fid]; ok && fid != "" && f.Status == "known" {
				if fid == wantFid && x.Step == w.Step {
					reproduced = true
					knownSeen[fid] = fmt.Sprintf("%s (witness %s: %s; flush threshold %d)", f.Signature, filepath.Base(wf), truncate(x.Msg, 200), x.Flush)
				}
				continue
			}
			fmt.Printf("  witness %s: [%s] %s\n", filepath.Base(wf), x.Class, truncate(x.Msg, 250))
			violations = append(violations, fmt.Sprintf("VIOLATION property=%s replay=%s", id, wf))
			break
		}
		if wantFid != "" && !reproduced {
			fmt.Printf("NOTE: listed finding %s does not reproduce on its witness %s any more\n", wantFid, filepath.Base(wf))
		}
	}
	ev.Coverage["witnesses_replayed"] = witnesses
	var evs []*faultEvent
	for _, e := range merged {
		evs = append(evs, e)
	}
	if len(evs) > 0 {
		tr, err := validateEvents(evs)
		if err != nil {
			return fail(2, "INCONCLUSIVE: "+err.Error())
		}
		transitions += tr.Generated
	}
	var samples []interface{}
	for i := 0; i < len(behs) && i < 3; i++ {
		samples = append(samples, map[string]interface{}{"behaviour": behs[i].Summary()})
	}
	distinct := map[string]bool{}
	for _, b := range behs {
		if hasOps(b, "set", "save") {
			distinct[b.Summary()] = true
		}
	}
	ev.Coverage["states"] = states
	ev.Coverage["transitions"] = transitions
	ev.Coverage["traces_validated_against_impl"] = images
	ev.Coverage["samples"] = samples
	ev.Coverage["evaluations"] = images
	ev.Coverage["distinct_nontrivial"] = len(distinct)
	ev.Coverage["rule"] = "IavlStore.tla behaviours (commits, change sets, pruning of one or many versions, rollbacks, opens with the index on/off that rebuild it) executed at flush thresholds 150/250/400/700/100000 on a store that is copied after every physical batch write; for every writing operation that issued more than one physical write, every image between two writes is reopened with the index on and off: Load must succeed and the versions, contents, hashes and indexed reads must be those before or after the operation (states from the specification); then the operation is repeated and must reach the state after it; event classes are validated by TLC against IavlFault.tla; evaluations = crash images x open modes"
	ev.Coverage["exhaustive"] = false
	ev.Coverage["multi_write_operations"] = multi
	ev.Coverage["behaviours"] = len(behs)
	ev.Coverage["event_classes"] = evs
	ev.Coverage["violation_classes_seen"] = classes
	ev.Coverage["model_checking_runs"] = notes
	ev.Coverage["model_checking_exhaustive_on_bounded_instance"] = mcDone
	ev.Coverage["observations_explained_by_listed_finding"] = tolerated
	ev.Violations = len(violations)
	for fid, msg := range knownSeen {
		fmt.Printf("KNOWN-FINDING: property=%s %s %s\n", id, fid, msg)
	}
	if err := WriteEvidence(ev, start); err != nil {
		fmt.Println("INCONCLUSIVE:", err)
		return 2
	}
	if len(violations) > 0 {
		for _, l := range violations {
			fmt.Println(l)
		}
		return 1
	}
	if images == 0 {
		fmt.Println("INCONCLUSIVE: no multi-write operation occurred")
		return 2
	}
	fmt.Printf("OK property=%s tier=%s seed=%d: %d behaviours x %d thresholds, %d multi-write operations, %d crash images reopened, %.0fs\n", id, tier, seed, len(behs), len(flushes), multi, images, time.Since(start).Seconds())
	return 0
}

// crashFinding maps a violation class (operation/symptom) to the listed finding that covers it.
var crashFinding = map[string]string{
	"delto/intermediate-range":  "F-C05-prune",
	"lvfo/partial-range-delete": "F-C05-rollback",
}

// betweenDisks: every node entry the state after the operation needs is in the image, and every node
// entry of the image belongs to the state before the operation.
func betweenDisks(img map[string][]byte, pre, post *model.Phys) bool {
	key := func(k model.NodeKey) string {
		b := make([]byte, 13)
		b[0] = 's'
		binary.BigEndian.PutUint64(b[1:], uint64(k.Ver))
		binary.BigEndian.PutUint32(b[9:], uint32(k.ID))
		return string(b)
	}
	preKeys := map[string]bool{}
	for _, d := range pre.Disk {
		preKeys[key(d.Key)] = true
	}
	for _, d := range post.Disk {
		if _, ok := img[key(d.Key)]; !ok {
			return false
		}
	}
	for k := range img {
		if k[0] == 's' && !preKeys[k] {
			return false
		}
	}
	return true
}

// ReplayCrash re-examines one crash image.
func ReplayCrash(path string) (bool, int) {
	bts, err := os.ReadFile(path)
	if err != nil {
		return false, 2
	}
	var v crashViolation
	if json.Unmarshal(bts, &v) != nil || v.Kind != "crash" {
		return false, 0
	}
	b, err := model.ParseBehaviour(string(v.Behaviour))
	if err != nil {
		fmt.Println("INCONCLUSIVE:", err)
		return true, 2
	}
	_, viols, _, _ := crashOne(b, palette.New(v.Palette, v.K, v.PalSeed), v.Palette, v.PalSeed, v.K, v.Cache, v.Flush)
	for _, x := range viols {
		if x.Step == v.Step && x.Class == v.Class {
			fmt.Printf("[%s] %s\n", x.Class, x.Msg)
			fmt.Printf("VIOLATION property=%s replay=%s\n", v.Property, path)
			return true, 1
		}
	}
	fmt.Println("replay passes on the current tree")
	return true, 0
}
