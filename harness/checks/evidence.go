package checks

import (
	"encoding/json"
	"os"
	"path/filepath"
	"time"
)

// VerifDir is where MANIFEST.json, evidence/ and known_findings.json live.
var VerifDir = func() string {
	if d := os.Getenv("VERIF_DIR"); d != "" {
		return d
	}
	return "/verif"
}()

// OutDir is where evidence/ and replays are written (VERIF_OUT overrides it during development,
// e.g. when a scratch copy of the library is evaluated in parallel).
var OutDir = func() string {
	if d := os.Getenv("VERIF_OUT"); d != "" {
		return d
	}
	return VerifDir
}()

type Evidence struct {
	PropertyID  string                 `json:"property_id"`
	Tier        string                 `json:"tier"`
	Seed        int64                  `json:"seed"`
	Level       string                 `json:"level"`
	Coverage    map[string]interface{} `json:"coverage"`
	Assumptions []string               `json:"assumptions"`
	WallS       float64                `json:"wall_s"`
	Violations  int                    `json:"violations"`
}

func WriteEvidence(ev *Evidence, start time.Time) error {
	ev.WallS = time.Since(start).Seconds()
	if ev.Level == "" {
		ev.Level = "model_checking"
	}
	dir := filepath.Join(OutDir, "evidence")
	if err := os.MkdirAll(dir, 0o755); err != nil {
		return err
	}
	b, err := json.MarshalIndent(ev, "", " ")
	if err != nil {
		return err
	}
	return os.WriteFile(filepath.Join(dir, ev.PropertyID+".json"), append(b, '\n'), 0o644)
}

// Finding is one entry of known_findings.json.
type Finding struct {
	ID          string `json:"id"`
	Property    string `json:"property"`
	Status      string `json:"status"` // "known" or "fixed"
	Commit      string `json:"commit,omitempty"`
	Signature   string `json:"signature"`
	Description string `json:"description"`
	Witness     string `json:"witness,omitempty"`
	Line        string `json:"line,omitempty"` // the "fixed: property=<id> <commit> <what failed>" line for repaired defects
}

type FindingsFile struct {
	Findings []Finding `json:"findings"`
}

func LoadFindings() (map[string]Finding, error) {
	b, err := os.ReadFile(filepath.Join(VerifDir, "known_findings.json"))
	if err != nil {
		if os.IsNotExist(err) {
			return map[string]Finding{}, nil
		}
		return nil, err
	}
	var f FindingsFile
	if err := json.Unmarshal(b, &f); err != nil {
		return nil, err
	}
	m := map[string]Finding{}
	for _, x := range f.Findings {
		m[x.ID] = x
	}
	return m, nil
}
