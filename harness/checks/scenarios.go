package checks

import (
	"bytes"
	"encoding/json"
	"errors"
	"fmt"
	"math"
	"os"
	"path/filepath"
	"time"
	"verif/harness/exec"

	corestore "cosmossdk.io/core/store"
	"github.com/cosmos/iavl"
	dbm "github.com/cosmos/iavl/db"
)

// Harness-driven scenarios that are too large for TLC-generated behaviours (more nodes than the
// iterator buffer of MemDB, more than one import batch). The expectation is differential: the
// original history's hashes and contents.

func watchdog(d time.Duration, f func() string) (msg string) {
	ch := make(chan string, 1)
	go func() {
		defer func() {
			if r := recover(); r != nil {
				ch <- fmt.Sprintf("panic: %v", r)
			}
		}()
		ch <- f()
	}()
	select {
	case m := <-ch:
		return m
	case <-time.After(5 * d): // five times the budget: a loaded machine is slow, a hang is for ever
		return fmt.Sprintf("the call did not return within %s (hang)", 5*d)
	}
}

func scenarioDB(backend string) (corestore.KVStoreWithBatch, func()) {
	if backend == "level" {
		dir, err := os.MkdirTemp("", "vscen")
		if err != nil {
			panic(err)
		}
		l, err := dbm.NewGoLevelDB("s", dir)
		if err != nil {
			panic(err)
		}
		return l, func() { l.Close(); os.RemoveAll(dir) }
	}
	return dbm.NewMemDB(), func() {}
}

// largeRollback: 30 versions x 5 keys, LoadVersionForOverwriting(1), then the same writes again.
func largeRollback(backend string, flush int, fast bool) string {
	db, cleanup := scenarioDB(backend)
	defer cleanup()
	t := iavl.NewMutableTree(db, 100, !fast, iavl.NewNopLogger(), iavl.FlushThresholdOption(flush))
	if _, err := t.Load(); err != nil {
		return err.Error()
	}
	write := func(v int) {
		for j := 0; j < 5; j++ {
			_, _ = t.Set([]byte(fmt.Sprintf("key-%03d", (v*7+j*13)%60)), []byte(fmt.Sprintf("val-%d-%d", v, j)))
		}
	}
	var hashes [][]byte
	for v := 1; v <= 30; v++ {
		write(v)
		h, _, err := t.SaveVersion()
		if err != nil {
			return err.Error()
		}
		hashes = append(hashes, h)
	}
	if msg := watchdog(20*time.Second, func() string {
		if err := t.LoadVersionForOverwriting(1); err != nil {
			return "LoadVersionForOverwriting(1): " + err.Error()
		}
		return ""
	}); msg != "" {
		return msg
	}
	if av := t.AvailableVersions(); len(av) != 1 || av[0] != 1 {
		return fmt.Sprintf("after the rollback AvailableVersions = %v", av)
	}
	if !bytes.Equal(t.Hash(), hashes[0]) {
		return "after the rollback the hash of version 1 differs"
	}
	for v := 2; v <= 4; v++ {
		write(v)
		h, _, err := t.SaveVersion()
		if err != nil {
			return err.Error()
		}
		if !bytes.Equal(h, hashes[v-1]) {
			return fmt.Sprintf("re-committing version %d after the rollback gives a different hash", v)
		}
	}
	// after a restart as well
	t2 := iavl.NewMutableTree(db, 0, !fast, iavl.NewNopLogger(), iavl.FlushThresholdOption(flush))
	if v, err := t2.Load(); err != nil || v != 4 {
		return fmt.Sprintf("reopen after rollback and re-commit: Load() = %d, %v", v, err)
	}
	return ""
}

// multiBatchImport: a tree of more than 10 000 nodes is exported and imported (more than one import batch),
// and an import of the same stream is abandoned before Commit.
func multiBatchImport(fast bool, compress bool, oneVersion bool) string {
	src := iavl.NewMutableTree(dbm.NewMemDB(), 0, true, iavl.NewNopLogger())
	if _, err := src.Load(); err != nil {
		return err.Error()
	}
	for i := 0; i < 5300; i++ {
		_, _ = src.Set([]byte(fmt.Sprintf("k%06d", (i*7919)%100003)), []byte(fmt.Sprintf("v%d", i)))
		if !oneVersion && (i == 2000 || i == 4000) {
			if _, _, err := src.SaveVersion(); err != nil {
				return err.Error()
			}
		}
	}
	hash, ver, err := src.SaveVersion()
	if err != nil {
		return err.Error()
	}
	it, _ := src.GetImmutable(ver)
	exp, err := it.Export()
	if err != nil {
		return err.Error()
	}
	var nodes []*iavl.ExportNode
	var ex iavl.NodeExporter = exp
	if compress {
		ex = iavl.NewCompressExporter(exp)
	}
	for {
		n, err := ex.Next()
		if errors.Is(err, iavl.ErrorExportDone) {
			break
		}
		if err != nil {
			return "export: " + err.Error()
		}
		nodes = append(nodes, n)
	}
	exp.Close()
	if len(nodes) <= 10000 {
		return fmt.Sprintf("scenario too small: %d nodes", len(nodes))
	}
	// complete import
	dst := dbm.NewMemDB()
	if msg := watchdog(60*time.Second, func() string {
		t := iavl.NewMutableTree(dst, 100, !fast, iavl.NewNopLogger())
		if _, err := t.Load(); err != nil {
			return err.Error()
		}
		imp, err := t.Import(ver)
		if err != nil {
			return err.Error()
		}
		var im iavl.NodeImporter = imp
		if compress {
			im = iavl.NewCompressImporter(imp)
		}
		for _, n := range nodes {
			if err := im.Add(cloneNode(n)); err != nil {
				return "Add: " + err.Error()
			}
		}
		if err := imp.Commit(); err != nil {
			return "Commit: " + err.Error()
		}
		imp.Close()
		if !bytes.Equal(t.Hash(), hash) || t.Size() != src.Size() {
			return "the imported tree differs from the exported one in hash or size"
		}
		for i := 0; i < 5300; i += 97 {
			k := []byte(fmt.Sprintf("k%06d", (i*7919)%100003))
			a, _ := src.Get(k)
			b, err := t.Get(k)
			if err != nil || !bytes.Equal(a, b) {
				return fmt.Sprintf("imported tree: Get(%s) = %s, %v", k, b, err)
			}
		}
		if av := t.AvailableVersions(); len(av) != 1 || int64(av[0]) != ver {
			return fmt.Sprintf("imported store lists versions %v", av)
		}
		return ""
	}); msg != "" {
		return "multi-batch import: " + msg
	}
	// abandoned import: nothing may be visible, the store must still open
	ab := dbm.NewMemDB()
	return watchdog(60*time.Second, func() string {
		t := iavl.NewMutableTree(ab, 100, !fast, iavl.NewNopLogger())
		if _, err := t.Load(); err != nil {
			return err.Error()
		}
		imp, err := t.Import(ver)
		if err != nil {
			return err.Error()
		}
		var im iavl.NodeImporter = imp
		if compress {
			im = iavl.NewCompressImporter(imp)
		}
		// everything but the root arrives; Commit may refuse or not, then the import is closed twice
		// (an explicit Close on the error path plus a deferred one; Close may be called repeatedly)
		for _, n := range nodes[:len(nodes)-1] {
			if err := im.Add(cloneNode(n)); err != nil {
				return "Add: " + err.Error()
			}
		}
		committed := imp.Commit() == nil
		imp.Close()
		imp.Close()
		if committed {
			return "" // an incomplete stream that commits is judged by the enumeration of streams, not here
		}
		t2 := iavl.NewMutableTree(ab, 0, !fast, iavl.NewNopLogger())
		v, err := t2.Load()
		if err != nil {
			return "abandoned multi-batch import: Load() fails: " + err.Error()
		}
		if v != 0 || len(t2.AvailableVersions()) != 0 {
			return fmt.Sprintf("abandoned multi-batch import: version %d visible (%v)", v, t2.AvailableVersions())
		}
		return ""
	})
}

// emptyKeyRoundTrip: the empty byte string is a valid key (the smallest one). A tree that contains it is
// exported and imported with both codecs; hash, contents and the behaviour under one more write must agree.
func emptyKeyRoundTrip(compress, fast bool) string {
	return watchdog(30*time.Second, func() string {
		src := iavl.NewMutableTree(dbm.NewMemDB(), 0, !fast, iavl.NewNopLogger())
		keys := [][]byte{{}, []byte("a"), []byte("ab"), []byte("b"), {0x00}, {0x00, 0x00}}
		for i, k := range keys {
			if _, err := src.Set(k, []byte(fmt.Sprintf("v%d", i))); err != nil {
				return fmt.Sprintf("Set(%x): %v", k, err)
			}
		}
		hash, ver, err := src.SaveVersion()
		if err != nil {
			return err.Error()
		}
		it, err := src.GetImmutable(ver)
		if err != nil {
			return err.Error()
		}
		exp, err := it.Export()
		if err != nil {
			return err.Error()
		}
		var ex iavl.NodeExporter = exp
		if compress {
			ex = iavl.NewCompressExporter(exp)
		}
		var nodes []*iavl.ExportNode
		for {
			n, err := ex.Next()
			if errors.Is(err, iavl.ErrorExportDone) {
				break
			}
			if err != nil {
				return "Exporter.Next: " + err.Error()
			}
			nodes = append(nodes, n)
		}
		exp.Close()
		t := iavl.NewMutableTree(dbm.NewMemDB(), 0, !fast, iavl.NewNopLogger())
		if _, err := t.Load(); err != nil {
			return err.Error()
		}
		imp, err := t.Import(ver)
		if err != nil {
			return err.Error()
		}
		var im iavl.NodeImporter = imp
		if compress {
			im = iavl.NewCompressImporter(imp)
		}
		for _, n := range nodes {
			if err := im.Add(n); err != nil {
				imp.Close()
				return fmt.Sprintf("Importer.Add of an exported node (key %x): %v", n.Key, err)
			}
		}
		if err := imp.Commit(); err != nil {
			return "Importer.Commit: " + err.Error()
		}
		imp.Close()
		if !bytes.Equal(t.Hash(), hash) {
			return "the imported tree has another root hash"
		}
		for i, k := range keys {
			v, err := t.Get(k)
			if err != nil || string(v) != fmt.Sprintf("v%d", i) {
				return fmt.Sprintf("imported tree: Get(%x) = %s, %v", k, v, err)
			}
		}
		_, _ = src.Set([]byte{}, []byte("again"))
		_, _ = t.Set([]byte{}, []byte("again"))
		h1, _, err1 := src.SaveVersion()
		h2, _, err2 := t.SaveVersion()
		if err1 != nil || err2 != nil || !bytes.Equal(h1, h2) {
			return fmt.Sprintf("after one more write the hashes differ (%v, %v)", err1, err2)
		}
		return ""
	})
}

// largeIndexRebuild: the fast index of a few hundred keys is wiped and rebuilt at open (label mismatch).
func largeIndexRebuild(backend string, flush int) string {
	db, cleanup := scenarioDB(backend)
	defer cleanup()
	t := iavl.NewMutableTree(db, 100, false, iavl.NewNopLogger(), iavl.FlushThresholdOption(flush))
	if _, err := t.Load(); err != nil {
		return err.Error()
	}
	for i := 0; i < 300; i++ {
		_, _ = t.Set([]byte(fmt.Sprintf("key-%04d", i)), []byte(fmt.Sprintf("a%d", i)))
	}
	if _, _, err := t.SaveVersion(); err != nil {
		return err.Error()
	}
	_ = t.Close()
	t = iavl.NewMutableTree(db, 100, true, iavl.NewNopLogger(), iavl.FlushThresholdOption(flush))
	if _, err := t.Load(); err != nil {
		return err.Error()
	}
	for i := 0; i < 300; i += 2 {
		_, _ = t.Set([]byte(fmt.Sprintf("key-%04d", i)), []byte(fmt.Sprintf("b%d", i)))
	}
	_, _, _ = t.Remove([]byte("key-0001"))
	if _, _, err := t.SaveVersion(); err != nil {
		return err.Error()
	}
	_ = t.Close()
	return watchdog(30*time.Second, func() string {
		t := iavl.NewMutableTree(db, 100, false, iavl.NewNopLogger(), iavl.FlushThresholdOption(flush))
		if v, err := t.Load(); err != nil || v != 2 {
			return fmt.Sprintf("Load() with the index enabled = %d, %v", v, err)
		}
		for i := 0; i < 300; i++ {
			want := fmt.Sprintf("a%d", i)
			if i%2 == 0 {
				want = fmt.Sprintf("b%d", i)
			}
			got, err := t.Get([]byte(fmt.Sprintf("key-%04d", i)))
			if i == 1 {
				if got != nil || err != nil {
					return fmt.Sprintf("removed key served from the rebuilt index: %s", got)
				}
				continue
			}
			if err != nil || string(got) != want {
				return fmt.Sprintf("after the index rebuild Get(key-%04d) = %s, %v; expected %s", i, got, err, want)
			}
		}
		return ""
	})
}

// chunkedRollback: the rollback and the index rebuild that follows work through the store in chunks of
// 1024 keys; here both cross several chunk boundaries: 2300 keys in version 1, version 2 rewrites 1500 of
// them, removes some and creates keys that sort first, in the middle and last; then LoadVersionForOverwriting(1).
// Afterwards every read path (index on) shows version 1, the erased keys are absent, the store holds
// exactly the node entries it held before version 2, and the same holds after a restart.
func chunkedRollback(backend string, flush int) string {
	db, cleanup := scenarioDB(backend)
	defer cleanup()
	count := func() (nodes, fast int) {
		itr, err := db.Iterator(nil, nil)
		if err != nil {
			return -1, -1
		}
		defer itr.Close()
		for ; itr.Valid(); itr.Next() {
			switch itr.Key()[0] {
			case 's':
				nodes++
			case 'f':
				fast++
			}
		}
		return
	}
	t := iavl.NewMutableTree(db, 100, false, iavl.NewNopLogger(), iavl.FlushThresholdOption(flush))
	if _, err := t.Load(); err != nil {
		return err.Error()
	}
	const n = 2300
	for i := 0; i < n; i++ {
		_, _ = t.Set([]byte(fmt.Sprintf("key-%05d", i)), []byte(fmt.Sprintf("a%d", i)))
	}
	h1, _, err := t.SaveVersion()
	if err != nil {
		return err.Error()
	}
	nodes1, fast1 := count()
	extra := []string{"aaa-first", "key-01000-mid", "key-02299-x", "zzz-last-1", "zzz-last-2"}
	// keys that have a key near a chunk boundary as a proper prefix (the wipe continues after the last key of a chunk)
	for i := 1015; i <= 1030; i++ {
		extra = append(extra, fmt.Sprintf("key-%05d/sub", i))
	}
	for i := 2040; i <= 2120; i += 2 {
		extra = append(extra, fmt.Sprintf("key-%05d/sub", i))
	}
	for i := 0; i < 1500; i++ {
		_, _ = t.Set([]byte(fmt.Sprintf("key-%05d", i)), []byte(fmt.Sprintf("b%d", i)))
	}
	for i := 2000; i < 2050; i++ {
		_, _, _ = t.Remove([]byte(fmt.Sprintf("key-%05d", i)))
	}
	for _, k := range extra {
		_, _ = t.Set([]byte(k), []byte("erased"))
	}
	if _, _, err := t.SaveVersion(); err != nil {
		return err.Error()
	}
	return watchdog(60*time.Second, func() string {
		if err := t.LoadVersionForOverwriting(1); err != nil {
			return "LoadVersionForOverwriting(1): " + err.Error()
		}
		check := func(t *iavl.MutableTree, when string) string {
			if !bytes.Equal(t.Hash(), h1) {
				return when + ": hash of version 1 changed"
			}
			for _, k := range extra {
				if v, err := t.Get([]byte(k)); err != nil || v != nil {
					return fmt.Sprintf("%s: Get(%s) of a key the erased version had created = %s, %v", when, k, v, err)
				}
			}
			for _, i := range []int{0, 1, 1023, 1024, 1025, 1499, 1500, 2000, 2049, 2299} {
				want := fmt.Sprintf("a%d", i)
				if v, err := t.Get([]byte(fmt.Sprintf("key-%05d", i))); err != nil || string(v) != want {
					return fmt.Sprintf("%s: Get(key-%05d) = %s, %v; version 1 has %s", when, i, v, err, want)
				}
			}
			cnt := 0
			itr, err := t.Iterator(nil, nil, true)
			if err != nil {
				return when + ": Iterator: " + err.Error()
			}
			for ; itr.Valid(); itr.Next() {
				want := fmt.Sprintf("a%d", cnt)
				if cnt < n && (string(itr.Key()) != fmt.Sprintf("key-%05d", cnt) || string(itr.Value()) != want) {
					itr.Close()
					return fmt.Sprintf("%s: iteration pair %d is %s=%s, version 1 has key-%05d=%s", when, cnt, itr.Key(), itr.Value(), cnt, want)
				}
				cnt++
			}
			err = itr.Error()
			itr.Close()
			if err != nil || cnt != n {
				return fmt.Sprintf("%s: iteration yields %d pairs, version 1 has %d (%v)", when, cnt, n, err)
			}
			return ""
		}
		if msg := check(t, "after the rollback"); msg != "" {
			return msg
		}
		if nodes, fast := count(); nodes != nodes1 || fast != fast1 {
			return fmt.Sprintf("after the rollback the store holds %d node entries and %d index entries, before version 2 it held %d and %d", nodes, fast, nodes1, fast1)
		}
		_ = t.Close()
		t2 := iavl.NewMutableTree(db, 0, false, iavl.NewNopLogger(), iavl.FlushThresholdOption(flush))
		if v, err := t2.Load(); err != nil || v != 1 {
			return fmt.Sprintf("Load() after the rollback and a restart = %d, %v", v, err)
		}
		defer t2.Close()
		return check(t2, "after the rollback and a restart")
	})
}

// tallTreeCosts: the read bounds of C11 only bite on tall trees (10h+10 against 11h needs h > 10). 8192 keys in
// ascending (or descending / alternating) order give height 13; with nothing cached every lookup by key, by rank
// and every existence test may read at most 2h+2 stored nodes, every proof at most 10h+10; height and size obey
// the AVL bound; rank and key lookups are inverse.
func tallTreeCosts(order string) string {
	return watchdog(120*time.Second, func() string {
		cdb := &exec.CountDB{KVStoreWithBatch: dbm.NewMemDB()}
		t := iavl.NewMutableTree(cdb, 0, true, iavl.NewNopLogger())
		if _, err := t.Load(); err != nil {
			return err.Error()
		}
		const n = 8192
		key := func(i int) []byte { return []byte(fmt.Sprintf("k%06d", 2*i+1)) } // odd numbers: even ones are gaps
		for j := 0; j < n; j++ {
			i := j
			switch order {
			case "descending":
				i = n - 1 - j
			case "alternating":
				if j%2 == 0 {
					i = j / 2
				} else {
					i = n - 1 - j/2
				}
			}
			if _, err := t.Set(key(i), []byte("v")); err != nil {
				return err.Error()
			}
			if j%1000 == 999 {
				if _, _, err := t.SaveVersion(); err != nil {
					return err.Error()
				}
			}
		}
		_, ver, err := t.SaveVersion()
		if err != nil {
			return err.Error()
		}
		_ = t.Close()
		h := iavl.NewMutableTree(cdb, 0, true, iavl.NewNopLogger())
		it, err := h.GetImmutable(ver)
		if err != nil {
			return err.Error()
		}
		hh, size := int64(it.Height()), it.Size()
		if size != n || float64(hh) > 1.4405*math.Log2(float64(size)+2) {
			return fmt.Sprintf("height %d, size %d: the AVL bound is %.2f", hh, size, 1.4405*math.Log2(float64(size)+2))
		}
		cdb.Take()
		probe := func(what string, bound int64) string {
			if got := cdb.Take(); got > bound {
				return fmt.Sprintf("%s order, height %d: %s reads %d stored nodes, bound %d", order, hh, what, got, bound)
			}
			return ""
		}
		for _, i := range []int{0, 1, 2, n / 3, n / 2, n - 3, n - 2, n - 1} {
			k := key(i)
			idx, v, err := it.GetWithIndex(k)
			if err != nil || idx != int64(i) || string(v) != "v" {
				return fmt.Sprintf("GetWithIndex(%s) = %d, %s, %v", k, idx, v, err)
			}
			if m := probe(fmt.Sprintf("GetWithIndex(%s)", k), 2*hh+2); m != "" {
				return m
			}
			k2, _, err := it.GetByIndex(int64(i))
			if err != nil || !bytes.Equal(k2, k) {
				return fmt.Sprintf("GetByIndex(%d) = %s, %v", i, k2, err)
			}
			if m := probe(fmt.Sprintf("GetByIndex(%d)", i), 2*hh+2); m != "" {
				return m
			}
			_, _ = it.Get(k)
			if m := probe(fmt.Sprintf("Get(%s)", k), 2*hh+2); m != "" {
				return m
			}
			_, _ = it.Has(k)
			if m := probe(fmt.Sprintf("Has(%s)", k), 2*hh+2); m != "" {
				return m
			}
			if _, err := it.GetProof(k); err != nil {
				return fmt.Sprintf("GetProof(%s): %v", k, err)
			}
			if m := probe(fmt.Sprintf("existence proof of %s", k), 10*hh+10); m != "" {
				return m
			}
			// the gap just above key i (and the one below the first key)
			for _, g := range [][]byte{[]byte(fmt.Sprintf("k%06d", 2*i+2)), []byte("k000000")} {
				if _, err := it.GetProof(g); err != nil {
					return fmt.Sprintf("GetProof(%s): %v", g, err)
				}
				if m := probe(fmt.Sprintf("absence proof of %s", g), 10*hh+10); m != "" {
					return m
				}
				_, _ = it.Has(g)
				if m := probe(fmt.Sprintf("Has(%s) of an absent key", g), 2*hh+2); m != "" {
					return m
				}
			}
		}
		return ""
	})
}

type scenarioResult struct {
	Name string `json:"scenario"`
	Msg  string `json:"observed"`
}

// runScenarios runs the named scenarios and turns failures into violations.
func runScenarios(id string, seed int64, ev *Evidence, list map[string]func() string) []string {
	var violations []string
	replayDir := filepath.Join(OutDir, "evidence", "replays")
	var names []string
	for name, f := range list {
		names = append(names, name)
		if msg := f(); msg != "" {
			_ = os.MkdirAll(replayDir, 0o755)
			path := filepath.Join(replayDir, fmt.Sprintf("%s-scenario-%d-%d.json", id, seed, len(violations)))
			b, _ := json.MarshalIndent(map[string]interface{}{"property": id, "kind": "scenario", "scenario": name, "observed": msg}, "", " ")
			_ = os.WriteFile(path, b, 0o644)
			violations = append(violations, fmt.Sprintf("VIOLATION property=%s replay=%s", id, path))
			fmt.Printf("  scenario %s: %s\n", name, truncate(msg, 300))
		}
	}
	ev.Coverage["large_scenarios_run"] = names
	return violations
}

var allScenarios = map[string]func() string{
	"large-rollback/mem/flush150/index-on":    func() string { return largeRollback("mem", 150, true) },
	"large-rollback/mem/flush150/index-off":   func() string { return largeRollback("mem", 150, false) },
	"large-rollback/level/flush150/index-on":  func() string { return largeRollback("level", 150, true) },
	"large-rollback/mem/flush100000/index-on": func() string { return largeRollback("mem", 100000, true) },
	"chunked-rollback/mem/flush150":           func() string { return chunkedRollback("mem", 150) },
	"chunked-rollback/level/flush100000":      func() string { return chunkedRollback("level", 100000) },
	"empty-key-round-trip/plain":              func() string { return emptyKeyRoundTrip(false, true) },
	"empty-key-round-trip/compressed":         func() string { return emptyKeyRoundTrip(true, false) },
	"tall-tree-costs/ascending":               func() string { return tallTreeCosts("ascending") },
	"tall-tree-costs/descending":              func() string { return tallTreeCosts("descending") },
	"tall-tree-costs/alternating":             func() string { return tallTreeCosts("alternating") },
	"large-index-rebuild/mem/flush150":        func() string { return largeIndexRebuild("mem", 150) },
	"large-index-rebuild/level/flush150":      func() string { return largeIndexRebuild("level", 150) },
	"multi-batch-import/index-on/plain":       func() string { return multiBatchImport(true, false, false) },
	"multi-batch-import/index-off/compressed": func() string { return multiBatchImport(false, true, false) },
	"multi-batch-import/one-version/index-on": func() string { return multiBatchImport(true, false, true) },
}

// ReplayScenario re-runs one scenario.
func ReplayScenario(path string) (bool, int) {
	b, err := os.ReadFile(path)
	if err != nil {
		return false, 2
	}
	var rf struct {
		Property string `json:"property"`
		Kind     string `json:"kind"`
		Scenario string `json:"scenario"`
	}
	if json.Unmarshal(b, &rf) != nil || rf.Kind != "scenario" {
		return false, 0
	}
	f := allScenarios[rf.Scenario]
	if f == nil {
		fmt.Println("INCONCLUSIVE: unknown scenario", rf.Scenario)
		return true, 2
	}
	if msg := f(); msg != "" {
		fmt.Println(msg)
		fmt.Printf("VIOLATION property=%s replay=%s\n", rf.Property, path)
		return true, 1
	}
	fmt.Println("replay passes on the current tree")
	return true, 0
}

// cloneNode: the compressed importer decodes a node in place, so every import gets its own copy.
func cloneNode(n *iavl.ExportNode) *iavl.ExportNode {
	c := *n
	if n.Key != nil {
		c.Key = append([]byte{}, n.Key...)
	}
	if n.Value != nil {
		c.Value = append([]byte{}, n.Value...)
	}
	return &c
}

// unloadedCommit: a new handle on a store that already holds versions 1 and 2 is NOT loaded; its working
// version is 1, which exists. The property's rule for committing an existing version number applies: success
// without effect iff the root hash is identical (write = "same"), an error leaving the store unchanged
// otherwise (write = "other": different content; "none": the empty tree). Afterwards the history, read
// through the same handle and through a properly loaded one, must be what it was.
func unloadedCommit(fast bool, write string) string {
	db, cleanup := scenarioDB("mem")
	defer cleanup()
	t := iavl.NewMutableTree(db, 100, !fast, iavl.NewNopLogger())
	var hashes [][]byte
	for v := 1; v <= 2; v++ {
		_, _ = t.Set([]byte("a"), []byte(fmt.Sprint(v)))
		h, ver, err := t.SaveVersion()
		if err != nil || ver != int64(v) {
			return fmt.Sprintf("setup: commit %d -> %d, %v", v, ver, err)
		}
		hashes = append(hashes, h)
	}
	fresh := iavl.NewMutableTree(db, 100, !fast, iavl.NewNopLogger())
	switch write {
	case "same":
		_, _ = fresh.Set([]byte("a"), []byte("1"))
	case "other":
		_, _ = fresh.Set([]byte("a"), []byte("9"))
	}
	h, ver, err := fresh.SaveVersion()
	if write == "same" {
		if err != nil || ver != 1 || !bytes.Equal(h, hashes[0]) {
			return fmt.Sprintf("re-commit of version 1 with identical content on an unloaded handle: want (hash of v1, 1, nil), got (%x, %d, %v)", h, ver, err)
		}
	} else if err == nil {
		return fmt.Sprintf("commit of existing version 1 with different content (%s) on an unloaded handle was accepted (returned version %d)", write, ver)
	}
	for name, tr := range map[string]*iavl.MutableTree{"the same handle": fresh, "a loaded handle": nil} {
		if tr == nil {
			tr = iavl.NewMutableTree(db, 100, !fast, iavl.NewNopLogger())
			if lv, err := tr.Load(); err != nil || lv != 2 {
				return fmt.Sprintf("%s: Load -> %d, %v (want 2)", name, lv, err)
			}
		}
		if lv, err := tr.GetLatestVersion(); err != nil || lv != 2 {
			return fmt.Sprintf("%s: GetLatestVersion -> %d, %v (want 2)", name, lv, err)
		}
		if av := tr.AvailableVersions(); len(av) != 2 || av[0] != 1 || av[1] != 2 {
			return fmt.Sprintf("%s: AvailableVersions -> %v (want [1 2])", name, av)
		}
		for v := 1; v <= 2; v++ {
			val, err := tr.GetVersioned([]byte("a"), int64(v))
			if err != nil || string(val) != fmt.Sprint(v) {
				return fmt.Sprintf("%s: GetVersioned(a, %d) -> %q, %v", name, v, val, err)
			}
			it, err := tr.GetImmutable(int64(v))
			if err != nil {
				return fmt.Sprintf("%s: GetImmutable(%d): %v", name, v, err)
			}
			if !bytes.Equal(it.Hash(), hashes[v-1]) {
				return fmt.Sprintf("%s: root hash of version %d changed", name, v)
			}
		}
	}
	return ""
}

func init() {
	for _, fast := range []bool{false, true} {
		for _, w := range []string{"none", "same", "other"} {
			fast, w := fast, w
			allScenarios[fmt.Sprintf("unloaded-commit/index-%v/%s", fast, w)] = func() string {
				return watchdog(20*time.Second, func() string { return unloadedCommit(fast, w) })
			}
		}
	}
}

// asyncPrunePin binds PinHolds of IavlConc.tla to the background pruner: with AsyncPruningOption the request
// DeleteVersionsTo(n) only records n; the pruner goroutine picks it up at its next poll (100 ms). An export
// opened on a version <= n in that window pins the version: the pruner must leave it alone for as long as
// the export is open, so the export, drained after the pruner has had several polls, must deliver the whole
// version. The window between the request and the export is a few microseconds against a 100 ms poll; in
// the rare run where the pruner got in first (GetImmutable fails, or the pruner was past its reader check)
// nothing is judged: the scenario is repeated and only a mismatch in every repetition is reported.
func asyncPrunePinOnce(fast bool) (string, bool) {
	db, cleanup := scenarioDB("mem")
	defer cleanup()
	t := iavl.NewMutableTree(db, 0, !fast, iavl.NewNopLogger(), iavl.AsyncPruningOption(true)) // no node cache: the export reads the store
	defer t.Close()
	if _, err := t.Load(); err != nil {
		return err.Error(), true
	}
	const n = 200 // far more nodes than the exporter prefetches (32)
	for v := 1; v <= 4; v++ {
		for j := 0; j < n; j++ {
			_, _ = t.Set([]byte(fmt.Sprintf("k%03d", j)), []byte(fmt.Sprintf("v%d-%d", v, j)))
		}
		t.SetCommitting()
		_, _, err := t.SaveVersion()
		t.UnsetCommitting()
		if err != nil {
			return err.Error(), true
		}
	}
	time.Sleep(150 * time.Millisecond) // the pruner is idle and polling
	if err := t.DeleteVersionsTo(3); err != nil {
		return "", false // refused: nothing to judge
	}
	it, err := t.GetImmutable(3)
	if err != nil {
		return "", false // the pruner was faster
	}
	exp, err := it.Export()
	if err != nil {
		return "", false
	}
	defer exp.Close()
	time.Sleep(600 * time.Millisecond) // several polls of the pruner
	leaves := 0
	for {
		node, err := exp.Next()
		if err == iavl.ErrorExportDone {
			break
		}
		if err != nil {
			return fmt.Sprintf("export of version 3, opened while a background prune to 3 was pending, failed after %d leaves: %v", leaves, err), true
		}
		if node.Height == 0 {
			if want := fmt.Sprintf("v3-%d", leaves); string(node.Value) != want {
				return fmt.Sprintf("export of pinned version 3: leaf %d has value %q, want %q", leaves, node.Value, want), true
			}
			leaves++
		}
	}
	if leaves != n {
		return fmt.Sprintf("export of version 3, opened while a background prune to 3 was pending, delivered %d of %d leaves (the pruner deleted a version with an open export)", leaves, n), true
	}
	if !t.VersionExists(3) {
		return "version 3 was deleted while an export of it was open", true
	}
	return "", true
}

func asyncPrunePin(fast bool) string {
	last := ""
	for rep := 0; rep < 3; rep++ {
		msg, judged := asyncPrunePinOnce(fast)
		if judged && msg == "" {
			return ""
		}
		if judged {
			last = msg
		}
	}
	return last // "" when no repetition could be judged
}

func init() {
	allScenarios["async-prune-pin/index-on"] = func() string { return watchdog(30*time.Second, func() string { return asyncPrunePin(true) }) }
	allScenarios["async-prune-pin/index-off"] = func() string { return watchdog(30*time.Second, func() string { return asyncPrunePin(false) }) }
}
