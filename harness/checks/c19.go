package checks

import (
	"bytes"
	"context"
	"encoding/hex"
	"encoding/json"
	"fmt"
	"math/rand"
	"os"
	"os/exec"
	"path/filepath"
	"sort"
	"strings"
	"sync"
	"time"

	"verif/harness/hashref"
	"verif/harness/model"
	"verif/harness/palette"
)

type v2Pair struct {
	K string `json:"k"`
	V string `json:"v"`
}
type v2Exp struct {
	Ver    int64    `json:"ver"`
	Hash   string   `json:"hash"`
	Pairs  []v2Pair `json:"pairs"`
	Height int      `json:"height"`
}
type v2Step struct {
	Op       string   `json:"op"`
	K        string   `json:"k,omitempty"`
	V        string   `json:"v,omitempty"`
	Upd      bool     `json:"upd,omitempty"`
	N        int64    `json:"n,omitempty"`
	Exp      *v2Exp   `json:"exp,omitempty"`
	Loadable []v2Exp  `json:"loadable,omitempty"`
	Work     []v2Pair `json:"work"`
}
type v2Job struct {
	ID    string   `json:"id"`
	CI    int64    `json:"ci"`
	HF    int8     `json:"hf"`
	ED    int8     `json:"ed"`
	Shard bool     `json:"shard"`
	Steps []v2Step `json:"steps"`
	sum   string
}

func v2pairs(t *model.Tree, pal *palette.Palette) []v2Pair {
	out := []v2Pair{}
	for _, l := range t.Leaves() {
		out = append(out, v2Pair{hex.EncodeToString(pal.Key(l.K)), hex.EncodeToString(pal.Value(l.V))})
	}
	return out
}

// buildV2Job turns a behaviour of IavlV2.tla into a job for the v2 child process.
func buildV2Job(id string, b *model.Behaviour, pal *palette.Palette, ci int64, hf, ed int8, shard bool, withPersistence bool) *v2Job {
	h := hashref.Hasher{Key: pal.Key, Value: pal.Value}
	job := &v2Job{ID: id, CI: ci, HF: hf, ED: ed, Shard: shard, sum: b.Summary()}
	saved := map[int64]*model.Tree{}
	exp := func(v int64) v2Exp {
		t := saved[v]
		return v2Exp{Ver: v, Hash: hex.EncodeToString(h.Hash(t, v+1)), Pairs: v2pairs(t, pal), Height: t.Height()}
	}
	for i, s := range b.Steps {
		switch s.Op {
		case "set":
			job.Steps = append(job.Steps, v2Step{Op: "set", K: hex.EncodeToString(pal.Key(s.Args.K)), V: hex.EncodeToString(pal.Value(s.Args.V)), Upd: s.Ret.Upd, Work: v2pairs(s.Work, pal)})
		case "rm":
			job.Steps = append(job.Steps, v2Step{Op: "rm", K: hex.EncodeToString(pal.Key(s.Args.K)), Upd: s.Ret.Rem, Work: v2pairs(s.Work, pal)})
		case "save":
			if s.Ret.Err || s.Ret.Noop {
				continue
			}
			saved[s.Ret.Ver] = s.Ret.Tree
			e := exp(s.Ret.Ver)
			job.Steps = append(job.Steps, v2Step{Op: "save", Exp: &e})
		case "reopen", "v2delto":
			if !withPersistence || b.V2 == nil {
				continue
			}
			st := v2Step{Op: "reopen"}
			if s.Op == "v2delto" {
				st.Op, st.N = "delto", s.Args.N
			}
			for _, v := range b.V2[i].Loadable {
				st.Loadable = append(st.Loadable, exp(v))
			}
			job.Steps = append(job.Steps, st)
		}
	}
	return job
}

// runV2Jobs feeds the jobs to the child process and returns its MISMATCH lines per job id.
// absentRemovalThenPrune: a removal of a key that is not there, later at least two commits, later a prune, later a restart.
func absentRemovalThenPrune(b *model.Behaviour) bool {
	stage, saves := 0, 0
	for _, s := range b.Steps {
		switch {
		case stage == 0 && s.Op == "rm" && !s.Ret.Rem:
			stage = 1
		case stage == 1 && s.Op == "save" && !s.Ret.Err:
			saves++
			if saves >= 2 {
				stage = 2
			}
		case stage == 2 && s.Op == "v2delto":
			stage = 3
		case stage == 3 && s.Op == "reopen":
			return true
		}
	}
	return false
}

// runV2Jobs spreads the jobs over several child processes.
func runV2Jobs(jobs []*v2Job) (map[string][]string, int64, error) {
	const procs = 12
	type res struct {
		out map[string][]string
		obs int64
		err error
	}
	rs := make([]res, procs)
	var wg sync.WaitGroup
	for p := 0; p < procs; p++ {
		var part []*v2Job
		for i := p; i < len(jobs); i += procs {
			part = append(part, jobs[i])
		}
		if len(part) == 0 {
			continue
		}
		wg.Add(1)
		go func(p int, part []*v2Job) {
			defer wg.Done()
			o, n, err := runV2Part(part)
			rs[p] = res{o, n, err}
		}(p, part)
	}
	wg.Wait()
	out := map[string][]string{}
	var obs int64
	for _, r := range rs {
		if r.err != nil {
			return nil, 0, r.err
		}
		obs += r.obs
		for k, v := range r.out {
			out[k] = append(out[k], v...)
		}
	}
	return out, obs, nil
}

func runV2Part(jobs []*v2Job) (map[string][]string, int64, error) {
	bin := os.Getenv("VERIF_V2RUN")
	if bin == "" {
		return nil, 0, fmt.Errorf("the v2 runner was not built (VERIF_V2RUN unset)")
	}
	var in bytes.Buffer
	for _, j := range jobs {
		b, _ := json.Marshal(j)
		in.Write(b)
		in.WriteByte('\n')
	}
	ctx, cancel := context.WithTimeout(context.Background(), 180*time.Minute)
	defer cancel()
	cmd := exec.CommandContext(ctx, bin)
	cmd.Stdin = &in
	var stdout, stderr bytes.Buffer
	cmd.Stdout, cmd.Stderr = &stdout, &stderr
	err := cmd.Run()
	out := map[string][]string{}
	var obs int64
	done := false
	for _, line := range strings.Split(stdout.String(), "\n") {
		if strings.HasPrefix(line, "MISMATCH job=") {
			rest := line[len("MISMATCH job="):]
			id := rest[:strings.Index(rest, " ")]
			out[id] = append(out[id], rest)
		}
		if strings.HasPrefix(line, "DONE ") {
			done = true
			var n int
			fmt.Sscanf(line, "DONE %d %d", &n, &obs)
		}
	}
	if !done {
		return out, obs, fmt.Errorf("the v2 runner did not finish (%v): %s", err, lastLines(stderr.String()+stdout.String(), 8))
	}
	return out, obs, nil
}

// RunV2 is the check of C19 (hash/read equivalence) and C20 (persistence).
func RunV2(id, tier string, seed int64) int {
	start := time.Now()
	persistence := id == "C20"
	ev := &Evidence{PropertyID: id, Tier: tier, Seed: seed, Coverage: map[string]interface{}{}}
	ev.Assumptions = []string{"histories are in the normal form v2 requires (at most one write or removal per key and version; removals of present keys only)", "the value returned by v2 Remove is not compared",
		"v2 runs in a child process with a temporary SQLite directory per job"}
	fail := func(code int, msg string) int {
		fmt.Println(msg)
		ev.Coverage["explanation"] = msg
		ev.Coverage["evaluations"] = 0
		ev.Coverage["distinct_nontrivial"] = 0
		_ = WriteEvidence(ev, start)
		return code
	}
	mc := McSpec{Module: "MCIavlV2", Workers: 16, Timeout: 25 * time.Minute, CfgText: fmt.Sprintf("SPECIFICATION V2SpecB\nCONSTANTS\n  K = 2\n  V = 2\n  IVs = {0}\n  D = 0\n  MaxVer = %d\n  MaxOps = 2\n  Classes <- SimClasses\n  Record = FALSE\n  CIs = {1, 2, 3}\nVIEW v2view\nINVARIANTS InvContents InvShape InvLoadable InvCkpts\nCHECK_DEADLOCK FALSE\n", tierNum(tier, 3, 4))}
	states, transitions, mcDone, notes, err := RunMc([]McSpec{mc})
	if err != nil {
		return fail(2, "INCONCLUSIVE: "+err.Error())
	}
	classes := []string{"set", "set", "set", "set", "rm", "rm", "rmabsent", "save", "save", "save"}
	if persistence {
		classes = append(classes, "reopen", "reopen", "delto")
	}
	sim := SimSpec{Module: "MCIavlV2", Spec: "V2SpecSim", K: 8, V: 3, IVs: "{0}", D: 36, Workers: 6, Num: tierNum(tier, 8, 40), Classes: classes,
		Invs: []string{"InvContents", "InvLoadable"}, ExtraConst: "  CIs = {1, 2, 3, 1000}\n"}
	if persistence && tier == "thorough" {
		sim.Num = 150 // two option sets per behaviour only: more behaviours instead
	}
	behs, gen, err := GenerateBehaviours(sim, seed)
	if err != nil {
		return fail(2, "INCONCLUSIVE: "+err.Error())
	}
	transitions += gen
	if !persistence {
		// a second family with larger trees and many removals: double rotations triggered by a removal
		// need five or more keys in a particular shape
		big := sim
		big.K, big.D, big.Num = 12, 48, tierNum(tier, 4, 20)
		big.Classes = []string{"setnew", "setnew", "setnew", "setnew", "set", "rm", "rm", "rm", "rm", "rmabsent", "save", "save"}
		bb, bg, err := GenerateBehaviours(big, seed+31)
		if err != nil {
			return fail(2, "INCONCLUSIVE: "+err.Error())
		}
		transitions += bg
		behs = append(behs, bb...)
		sim.K = big.K // palettes must cover the larger key set
	}
	if persistence {
		// focused family: a removal of an absent key, commits up to a checkpoint, a prune beyond it, a restart
		fam := sim
		fam.Num = tierNum(tier, 20, 60)
		fam.Classes = []string{"set", "set", "set", "rmabsent", "rmabsent", "rm", "save", "save", "save", "save", "delto", "delto", "reopen", "reopen"}
		fb, fg, err := GenerateBehaviours(fam, seed+53)
		if err != nil {
			return fail(2, "INCONCLUSIVE: "+err.Error())
		}
		transitions += fg
		kept := 0
		for _, b := range fb {
			if kept < tierNum(tier, 12, 100) && absentRemovalThenPrune(b) {
				behs = append(behs, b)
				kept++
			}
		}
		ev.Coverage["focused_family"] = fmt.Sprintf("removal of an absent key, two commits, a prune, a restart: %d of %d generated behaviours contain the pattern, %d used", countIf(fb, absentRemovalThenPrune), len(fb), kept)
	}
	rng := rand.New(rand.NewSource(seed))
	var jobs []*v2Job
	combos := 0
	for bi, b := range behs {
		ci := int64(1000)
		if b.V2 != nil && len(b.V2) > 0 {
			ci = b.V2[0].CI
		}
		var opts [][4]int // ci, hf, ed, shard
		if persistence {
			for _, hf := range []int{0, 1} {
				opts = append(opts, [4]int{int(ci), hf, []int{-1, 0, 1, 8}[rng.Intn(4)], rng.Intn(2)})
			}
		} else {
			all := [][4]int{}
			for _, c := range []int{1, 2, 3, 1000} {
				for _, hf := range []int{0, 1} {
					for _, ed := range []int{-1, 0, 1, 8} {
						for _, sh := range []int{0, 1} {
							all = append(all, [4]int{c, hf, ed, sh})
						}
					}
				}
			}
			n := tierNum(tier, 6, 32)
			for _, j := range rng.Perm(len(all))[:n] {
				opts = append(opts, all[j])
			}
		}
		for oi, o := range opts {
			// every step of a v2 job carries the whole expected contents: the 64 KiB values of the "huge"
			// palette would make the job list tens of gigabytes; v2 stores values as opaque blobs
			name := palette.Names[rng.Intn(len(palette.Names))]
			for name == "huge" {
				name = palette.Names[rng.Intn(len(palette.Names))]
			}
			pal := palette.New(name, sim.K, rng.Int63())
			jobs = append(jobs, buildV2Job(fmt.Sprintf("b%d.o%d", bi, oi), b, pal, int64(o[0]), int8(o[1]), int8(o[2]), o[3] == 1, persistence))
			combos++
		}
	}
	mism, obs, err := runV2Jobs(jobs)
	if err != nil {
		return fail(2, "INCONCLUSIVE: "+err.Error())
	}
	known, err := LoadFindings()
	if err != nil {
		return fail(2, "INCONCLUSIVE: "+err.Error())
	}
	var violations []string
	tolerated := map[string]int{}
	knownSeen := map[string]string{}
	replayDir := filepath.Join(OutDir, "evidence", "replays")
	if old, _ := filepath.Glob(filepath.Join(replayDir, id+"-*.json")); len(old) > 0 {
		for _, f := range old {
			_ = os.Remove(f)
		}
	}
	byID := map[string]*v2Job{}
	for _, j := range jobs {
		byID[j.ID] = j
	}
	var ids []string
	for jid := range mism {
		ids = append(ids, jid)
	}
	sort.Strings(ids)
	for _, jid := range ids {
		lines := mism[jid]
		j := byID[jid]
		fid := classifyV2(j, lines)
		if f, ok := known[fid]; ok && fid != "" && f.Status == "known" {
			tolerated[fid]++
			if _, dup := knownSeen[fid]; !dup {
				knownSeen[fid] = fmt.Sprintf("%s (e.g. options ci=%d hf=%d ed=%d shard=%v: %s)", f.Signature, j.CI, j.HF, j.ED, j.Shard, truncate(lines[0], 200))
			}
			continue
		}
		_ = os.MkdirAll(replayDir, 0o755)
		path := filepath.Join(replayDir, fmt.Sprintf("%s-%d-%d.json", id, seed, len(violations)))
		bts, _ := json.MarshalIndent(map[string]interface{}{"property": id, "kind": "v2job", "job": j, "summary": j.sum, "observed": lines}, "", " ")
		_ = os.WriteFile(path, bts, 0o644)
		violations = append(violations, fmt.Sprintf("VIOLATION property=%s replay=%s", id, path))
		if len(violations) <= 6 {
			fmt.Printf("  options ci=%d hf=%d ed=%d shard=%v: %s\n    behaviour: %s\n", j.CI, j.HF, j.ED, j.Shard, truncate(lines[0], 300), truncate(j.sum, 300))
		}
	}
	distinct := map[string]bool{}
	for _, b := range behs {
		if hasOps(b, "set", "save") {
			distinct[b.Summary()] = true
		}
	}
	var samples []interface{}
	for i := 0; i < len(behs) && i < 3; i++ {
		samples = append(samples, behs[i].Summary())
	}
	ev.Coverage["states"] = states
	ev.Coverage["transitions"] = transitions
	ev.Coverage["traces_validated_against_impl"] = len(jobs)
	ev.Coverage["samples"] = samples
	ev.Coverage["evaluations"] = len(jobs)
	ev.Coverage["distinct_nontrivial"] = len(distinct)
	if persistence {
		ev.Coverage["rule"] = "IavlV2.tla behaviours in v2's normal form with checkpoint interval 1/2/3/1000 chosen per behaviour, commits, close/reopen and DeleteVersionsTo; at every reopen (and after every prune, once the writer goroutines had 300 ms) the database is closed and EVERY version the specification calls loadable (targets on, just after and far after a checkpoint) is loaded by a fresh handle - checkpoint root plus change-log replay - and compared in root hash, height, size, all keys and iterators; then the history continues from the latest version and later hashes are compared; height filter 0/1, eviction depth, sharding sampled"
	} else {
		ev.Coverage["rule"] = "IavlV2.tla behaviours in v2's normal form (empty versions, trees that shrink to empty) replayed on the v2 tree for 6 (quick) / 32 (thorough) sampled of the 64 combinations of checkpoint interval {1,2,3,1000} x height filter {0,1} x eviction depth {-1,0,1,8} x sharding; at every commit the root hash must equal SHA-256 over the specification's tree (which the C02 check ties to v1), and Get/Has/Size/Height and forward, inclusive and reverse iterators over full and partial ranges must agree with the specification's contents; after every write the working tree's reads are compared too"
	}
	ev.Coverage["exhaustive"] = false
	ev.Coverage["model_checking_runs"] = notes
	ev.Coverage["model_checking_exhaustive_on_bounded_instance"] = mcDone
	ev.Coverage["behaviours"] = len(behs)
	ev.Coverage["jobs"] = len(jobs)
	ev.Coverage["observations_compared"] = obs
	ev.Coverage["jobs_explained_by_listed_finding"] = tolerated
	ev.Violations = len(violations)
	for fid, msg := range knownSeen {
		fmt.Printf("KNOWN-FINDING: property=%s %s %s\n", id, fid, msg)
	}
	if err := WriteEvidence(ev, start); err != nil {
		fmt.Println("INCONCLUSIVE:", err)
		return 2
	}
	if len(violations) > 0 {
		for _, l := range violations {
			fmt.Println(l)
		}
		return 1
	}
	fmt.Printf("OK property=%s tier=%s seed=%d: %d behaviours, %d jobs (behaviour x options) on v2, %d observations, %.0fs\n", id, tier, seed, len(behs), len(jobs), obs, time.Since(start).Seconds())
	return 0
}

// classifyV2 maps the mismatches of a job to a listed finding ("" = none).
func classifyV2(j *v2Job, lines []string) string {
	return ""
}

// ReplayV2 re-runs one v2 job.
func ReplayV2(path string) (bool, int) {
	b, err := os.ReadFile(path)
	if err != nil {
		return false, 2
	}
	var rf struct {
		Property string `json:"property"`
		Kind     string `json:"kind"`
		Job      *v2Job `json:"job"`
	}
	if json.Unmarshal(b, &rf) != nil || rf.Kind != "v2job" {
		return false, 0
	}
	mism, _, err := runV2Jobs([]*v2Job{rf.Job})
	if err != nil {
		fmt.Println("INCONCLUSIVE:", err)
		return true, 2
	}
	if lines := mism[rf.Job.ID]; len(lines) > 0 {
		known, _ := LoadFindings()
		if f, ok := known[classifyV2(rf.Job, lines)]; ok && f.Status == "known" {
			fmt.Println("KNOWN-FINDING:", f.ID, lines[0])
			return true, 0
		}
		fmt.Println(lines[0])
		fmt.Printf("VIOLATION property=%s replay=%s\n", rf.Property, path)
		return true, 1
	}
	fmt.Println("replay passes on the current tree")
	return true, 0
}
