// v2run executes jobs on the SQLite-backed v2 tree in its own process (v2's writer goroutines call
// os.Exit on failure). A job is a behaviour in v2's normal form with the expected root hash and
// contents of every committed version, computed by the parent from the specification. For every
// divergence one line starting with MISMATCH is printed; the last line is DONE <jobs> <observations>.
package main

import (
	"bufio"
	"bytes"
	"context"
	"encoding/hex"
	"encoding/json"
	"fmt"
	"os"
	"runtime/debug"
	"time"

	iavl "github.com/cosmos/iavl/v2"
)

type Pair struct {
	K string `json:"k"`
	V string `json:"v"`
}

type VersionExp struct {
	Ver    int64  `json:"ver"`
	Hash   string `json:"hash"`
	Pairs  []Pair `json:"pairs"`
	Height int    `json:"height"`
}

type Step struct {
	Op       string       `json:"op"` // set rm save reopen delto snapshot
	K        string       `json:"k"`
	V        string       `json:"v"`
	Upd      bool         `json:"upd"`
	N        int64        `json:"n"`
	Exp      *VersionExp  `json:"exp"`      // save: the version created; reopen: the latest version
	Loadable []VersionExp `json:"loadable"` // reopen/delto: every version that must load
	Work     []Pair       `json:"work"`     // expected working contents after set/rm
}

type Job struct {
	ID    string `json:"id"`
	CI    int64  `json:"ci"`
	HF    int8   `json:"hf"`
	ED    int8   `json:"ed"`
	Shard bool   `json:"shard"`
	Steps []Step `json:"steps"`
}

var obs int64

func unhex(s string) []byte {
	b, err := hex.DecodeString(s)
	if err != nil {
		panic(err)
	}
	if b == nil {
		b = []byte{}
	}
	return b
}

type session struct {
	job  *Job
	dir  string
	tree *iavl.Tree
}

func (s *session) open(version int64) error {
	pool := iavl.NewNodePool()
	sql, err := iavl.NewSqliteDb(pool, iavl.SqliteDbOptions{Path: s.dir, ShardTrees: s.job.Shard})
	if err != nil {
		return err
	}
	opts := iavl.DefaultTreeOptions()
	opts.CheckpointInterval = s.job.CI
	opts.HeightFilter = s.job.HF
	opts.EvictionDepth = s.job.ED
	opts.StateStorage = true
	s.tree = iavl.NewTree(sql, pool, opts)
	if version > 0 {
		return s.tree.LoadVersion(version)
	}
	return nil
}

func mism(job *Job, i int, format string, a ...interface{}) {
	fmt.Printf("MISMATCH job=%s step=%d: %s\n", job.ID, i, fmt.Sprintf(format, a...))
}

// compare the whole tree with the expected contents of a version
func (s *session) compare(i int, what string, exp *VersionExp, withHash bool) bool {
	t := s.tree
	ok := true
	if withHash && hex.EncodeToString(t.Hash()) != exp.Hash {
		mism(s.job, i, "%s: root hash %x, expected %s", what, t.Hash(), exp.Hash)
		ok = false
	}
	{
		if t.Size() != int64(len(exp.Pairs)) {
			mism(s.job, i, "%s: Size() = %d, expected %d", what, t.Size(), len(exp.Pairs))
			ok = false
		}
		if withHash && int(t.Height()) != exp.Height {
			mism(s.job, i, "%s: Height() = %d, expected %d", what, t.Height(), exp.Height)
			ok = false
		}
	}
	want := map[string]string{}
	for _, p := range exp.Pairs {
		want[p.K] = p.V
		v, err := t.Get(unhex(p.K))
		if err != nil || hex.EncodeToString(v) != p.V || v == nil {
			mism(s.job, i, "%s: Get(%s) = %x (%v), expected %s", what, p.K, v, err, p.V)
			ok = false
		}
		h, err := t.Has(unhex(p.K))
		if err != nil || !h {
			mism(s.job, i, "%s: Has(%s) = %v (%v)", what, p.K, h, err)
			ok = false
		}
		obs += 2
	}
	// an absent key
	if v, err := t.Get([]byte{0xfd, 0xfd, 0xfd}); err != nil || v != nil {
		mism(s.job, i, "%s: Get(absent) = %x (%v)", what, v, err)
		ok = false
	}
	// forward, inclusive and reverse iteration over the whole range and over a sub-range
	bounds := [][2][]byte{{nil, nil}}
	if len(exp.Pairs) >= 2 {
		bounds = append(bounds, [2][]byte{unhex(exp.Pairs[0].K), unhex(exp.Pairs[len(exp.Pairs)-1].K)})
		bounds = append(bounds, [2][]byte{unhex(exp.Pairs[1].K), nil})
	}
	for _, b := range bounds {
		for mode := 0; mode < 3; mode++ {
			var itr iavl.Iterator
			var err error
			switch mode {
			case 0:
				itr, err = t.Iterator(b[0], b[1], false)
			case 1:
				itr, err = t.Iterator(b[0], b[1], true)
			case 2:
				itr, err = t.ReverseIterator(b[0], b[1])
			}
			if err != nil {
				mism(s.job, i, "%s: iterator mode %d: %v", what, mode, err)
				ok = false
				continue
			}
			var got []Pair
			for ; itr.Valid(); itr.Next() {
				got = append(got, Pair{hex.EncodeToString(itr.Key()), hex.EncodeToString(itr.Value())})
				if len(got) > len(exp.Pairs)+2 {
					break
				}
			}
			_ = itr.Close()
			var exps []Pair
			for _, p := range exp.Pairs {
				k := unhex(p.K)
				if b[0] != nil && bytes.Compare(k, b[0]) < 0 {
					continue
				}
				if b[1] != nil {
					c := bytes.Compare(k, b[1])
					if c > 0 || (c == 0 && mode != 1) {
						continue
					}
				}
				exps = append(exps, p)
			}
			if mode == 2 {
				for x, y := 0, len(exps)-1; x < y; x, y = x+1, y-1 {
					exps[x], exps[y] = exps[y], exps[x]
				}
			}
			if fmt.Sprint(got) != fmt.Sprint(exps) {
				mism(s.job, i, "%s: iterator mode %d over [%x,%x) yields %v, expected %v", what, mode, b[0], b[1], got, exps)
				ok = false
			}
			obs++
		}
	}
	return ok
}

// streamSnapshot exports the loaded tree in the given order, writes the stream as a snapshot into an
// empty database and compares what that database then loads.
func (s *session) streamSnapshot(i int, version int64, order iavl.TraverseOrderType, exp *VersionExp) {
	dir, err := os.MkdirTemp("", "v2snap")
	if err != nil {
		panic(err)
	}
	defer os.RemoveAll(dir)
	what := fmt.Sprintf("stream snapshot of version %d (order %v)", version, order)
	pool := iavl.NewNodePool()
	sql, err := iavl.NewSqliteDb(pool, iavl.SqliteDbOptions{Path: dir, ShardTrees: s.job.Shard})
	if err != nil {
		mism(s.job, i, "%s: open empty database: %v", what, err)
		return
	}
	x := s.tree.Export(order)
	root, err := sql.WriteSnapshot(context.Background(), version, x.Next, iavl.SnapshotOptions{StoreLeafValues: true, WriteCheckpoint: true, TraverseOrder: order})
	if err != nil {
		mism(s.job, i, "%s: WriteSnapshot: %v", what, err)
		_ = sql.Close()
		return
	}
	if root == nil || hex.EncodeToString(root.GetHash()) != exp.Hash {
		var h []byte
		if root != nil {
			h = root.GetHash()
		}
		mism(s.job, i, "%s: WriteSnapshot returns root hash %x, expected %s", what, h, exp.Hash)
	}
	if err := sql.Close(); err != nil {
		mism(s.job, i, "%s: Close: %v", what, err)
	}
	saved := s.tree
	savedDir := s.dir
	defer func() { s.tree, s.dir = saved, savedDir }()
	s.dir = dir
	s.tree = nil
	// (LoadVersion in the new database is not judged: C20 speaks of importing the snapshot; after a
	// pre-order WriteSnapshot the leaves are keyed by ordinals without the leaf flag and LoadVersion
	// cannot find them - recorded in DESIGN.md as an observation outside the property)
	// from the snapshot table
	if err := s.open(0); err != nil {
		mism(s.job, i, "%s: open: %v", what, err)
		return
	}
	if err := s.tree.LoadSnapshot(version, order); err != nil {
		mism(s.job, i, "%s: LoadSnapshot: %v", what, err)
	} else {
		s.compare(i, what+" loaded from the snapshot table", exp, true)
	}
	_ = s.tree.Close()
}

func run(job *Job) {
	dir, err := os.MkdirTemp("", "v2run")
	if err != nil {
		panic(err)
	}
	defer os.RemoveAll(dir)
	s := &session{job: job, dir: dir}
	if err := s.open(0); err != nil {
		mism(job, -1, "open: %v", err)
		return
	}
	latest := int64(0)
	snapped := map[int64]bool{}
	for i, st := range job.Steps {
		switch st.Op {
		case "set":
			upd, err := s.tree.Set(unhex(st.K), unhex(st.V))
			if err != nil || upd != st.Upd {
				mism(job, i, "Set(%s) = %v (%v), expected updated=%v", st.K, upd, err, st.Upd)
			}
			s.compare(i, "working tree after set", &VersionExp{Pairs: st.Work}, false)
		case "rm":
			// Upd carries the specification's answer: was the key there
			_, removed, err := s.tree.Remove(unhex(st.K))
			if err != nil || removed != st.Upd {
				mism(job, i, "Remove(%s) = removed %v (%v), specification: %v", st.K, removed, err, st.Upd)
			}
			s.compare(i, "working tree after remove", &VersionExp{Pairs: st.Work}, false)
		case "save":
			h, v, err := s.tree.SaveVersion()
			if err != nil || v != st.Exp.Ver || hex.EncodeToString(h) != st.Exp.Hash {
				mism(job, i, "SaveVersion = (%x, %d, %v), expected (%s, %d)", h, v, err, st.Exp.Hash, st.Exp.Ver)
				return
			}
			latest = v
			s.compare(i, fmt.Sprintf("version %d after commit", v), st.Exp, true)
		case "reopen", "delto":
			if st.Op == "delto" {
				if err := s.tree.DeleteVersionsTo(st.N); err != nil {
					mism(job, i, "DeleteVersionsTo(%d): %v", st.N, err)
				}
				time.Sleep(300 * time.Millisecond) // pruning runs in the writer goroutines
			}
			// a snapshot of the latest version, imported below in both traversal orders
			snap := st.Op == "reopen" && latest > 0 && s.tree.Version() == latest && s.tree.Size() > 0 && !snapped[latest]
			snapped[latest] = true
			if snap {
				if err := s.tree.SaveSnapshot(); err != nil {
					mism(job, i, "SaveSnapshot at version %d: %v", latest, err)
					snap = false
				}
			}
			if snap {
				// the node stream of the latest version, in pre-order and in post-order, written as a snapshot
				// into an empty database (the migration path) and loaded there from the tree tables and from
				// the snapshot table
				for _, order := range []iavl.TraverseOrderType{iavl.PreOrder, iavl.PostOrder} {
					for _, lv := range st.Loadable {
						if lv.Ver == latest {
							lv := lv
							s.streamSnapshot(i, latest, order, &lv)
						}
					}
				}
			}
			if err := s.tree.Close(); err != nil {
				mism(job, i, "Close: %v", err)
				return
			}
			if snap {
				// (Tree.SaveSnapshot writes the table in pre-order; it must be read in the same order)
				for _, order := range []iavl.TraverseOrderType{iavl.PreOrder} {
					if err := s.open(0); err != nil {
						mism(job, i, "open for snapshot import: %v", err)
						continue
					}
					if err := s.tree.LoadSnapshot(latest, order); err != nil {
						mism(job, i, "LoadSnapshot(%d, order %v): %v", latest, order, err)
					} else {
						for _, lv := range st.Loadable {
							if lv.Ver == latest {
								lv := lv
								s.compare(i, fmt.Sprintf("snapshot of version %d imported (order %v)", latest, order), &lv, true)
							}
						}
					}
					_ = s.tree.Close()
				}
			}
			for _, lv := range st.Loadable {
				lv := lv
				if err := s.open(lv.Ver); err != nil {
					mism(job, i, "LoadVersion(%d) of a version that must load: %v", lv.Ver, err)
					if s.tree != nil {
						_ = s.tree.Close()
					}
					continue
				}
				if s.tree.Version() != lv.Ver {
					mism(job, i, "LoadVersion(%d): Version() = %d", lv.Ver, s.tree.Version())
				}
				s.compare(i, fmt.Sprintf("version %d loaded after reopen", lv.Ver), &lv, true)
				_ = s.tree.Close()
			}
			if err := s.open(latest); err != nil {
				mism(job, i, "LoadVersion(latest=%d): %v", latest, err)
				return
			}
		}
		obs++
	}
	_ = s.tree.Close()
}

func main() {
	sc := bufio.NewScanner(os.Stdin)
	sc.Buffer(make([]byte, 1<<20), 1<<28)
	n := 0
	for sc.Scan() {
		var job Job
		if err := json.Unmarshal(sc.Bytes(), &job); err != nil {
			fmt.Println("BADJOB", err)
			continue
		}
		func() {
			defer func() {
				if r := recover(); r != nil {
					fmt.Printf("MISMATCH job=%s step=-1: panic: %v | %s\n", job.ID, r, bytes.ReplaceAll(debug.Stack(), []byte("\n"), []byte(" | "))[:600])
				}
			}()
			run(&job)
		}()
		n++
	}
	fmt.Printf("DONE %d %d\n", n, obs)
}
