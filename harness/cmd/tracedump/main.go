// tracedump writes random-driver traces (development aid; the checks call tracegen directly).
package main

import (
	"fmt"
	"os"
	"strconv"

	"verif/harness/tracegen"
)

func main() {
	n, _ := strconv.Atoi(os.Args[1])
	ln, _ := strconv.Atoi(os.Args[2])
	seed, _ := strconv.ParseInt(os.Args[3], 10, 64)
	for i := 0; i < n; i++ {
		lines, err := tracegen.Generate(tracegen.Opts{K: 12, Len: ln, Seed: seed + int64(i), Palette: "single", Cache: 0, Flush: 100000, EmptyFirstKey: os.Getenv("EMPTYKEY") != ""})
		for _, l := range lines {
			fmt.Println(l)
		}
		if err != nil {
			fmt.Fprintln(os.Stderr, "ERROR", err)
			os.Exit(1)
		}
	}
}
