// vcheck is the command behind /verif/check.
package main

import (
	"fmt"
	"os"
	"strconv"

	"verif/harness/checks"
)

func main() {
	if len(os.Args) < 3 {
		fmt.Println("usage: vcheck <property> quick|thorough | vcheck <property> --replay <file>")
		os.Exit(2)
	}
	id := os.Args[1]
	if id == "C17-child" {
		os.Exit(checks.FaultChild(os.Args[2]))
	}
	seed := int64(1)
	if s := os.Getenv("VERIF_SEED"); s != "" {
		if n, err := strconv.ParseInt(s, 10, 64); err == nil {
			seed = n
		}
	}
	tier := os.Args[2]
	if t := os.Getenv("VERIF_TIER"); t != "" && tier != "--replay" {
		tier = t
	}
	if tier == "--replay" {
		if handled, code := checks.ReplayHostile(os.Args[3]); handled {
			os.Exit(code)
		}
		if handled, code := checks.ReplayDecoder(os.Args[3]); handled {
			os.Exit(code)
		}
		if handled, code := checks.ReplayFault(os.Args[3]); handled {
			os.Exit(code)
		}
		if handled, code := checks.ReplayCrash(os.Args[3]); handled {
			os.Exit(code)
		}
		if handled, code := checks.ReplayKV(os.Args[3]); handled {
			os.Exit(code)
		}
		if handled, code := checks.ReplayLRU(os.Args[3]); handled {
			os.Exit(code)
		}
		if handled, code := checks.ReplayGate(os.Args[3]); handled {
			os.Exit(code)
		}
		if handled, code := checks.ReplayTrace(os.Args[3]); handled {
			os.Exit(code)
		}
		if handled, code := checks.ReplayScenario(os.Args[3]); handled {
			os.Exit(code)
		}
		if handled, code := checks.ReplayV2(os.Args[3]); handled {
			os.Exit(code)
		}
		c, err := checks.Build(id, "quick", seed)
		if err != nil {
			fmt.Println("INCONCLUSIVE:", err)
			os.Exit(2)
		}
		os.Exit(c.Replay(os.Args[3]))
	}
	if tier != "quick" && tier != "thorough" {
		fmt.Println("tier must be quick or thorough")
		os.Exit(2)
	}
	if id == "C19" || id == "C20" {
		os.Exit(checks.RunV2(id, tier, seed))
	}
	if id == "C18" {
		os.Exit(checks.RunC18(id, tier, seed))
	}
	if id == "C05" {
		os.Exit(checks.RunC05(id, tier, seed))
	}
	if id == "C17" {
		os.Exit(checks.RunC17(id, tier, seed))
	}
	c, err := checks.Build(id, tier, seed)
	if err != nil {
		fmt.Println("INCONCLUSIVE:", err)
		os.Exit(2)
	}
	os.Exit(c.Run())
}
