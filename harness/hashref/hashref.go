// Package hashref computes the IAVL root hash of a tree printed by the specification.
// It is the only hand-written Go on the oracle side besides trivial projections: the
// structure (shape, heights, sizes, node versions) comes from TLC, this file only
// applies the documented hash preimage:
//
//	leaf : varint(0) varint(1) varint(version) bytes(key) bytes(sha256(value))
//	inner: varint(height) varint(size) varint(version) bytes(hash(left)) bytes(hash(right))
//	empty: sha256("")
//
// A node with ver = 0 is not persisted yet and is hashed with the working version.
package hashref

import (
	"crypto/sha256"
	"encoding/binary"

	"verif/harness/model"
)

func putVarint(b []byte, x int64) []byte {
	var buf [binary.MaxVarintLen64]byte
	n := binary.PutVarint(buf[:], x)
	return append(b, buf[:n]...)
}

func putBytes(b []byte, bz []byte) []byte {
	var buf [binary.MaxVarintLen64]byte
	n := binary.PutUvarint(buf[:], uint64(len(bz)))
	b = append(b, buf[:n]...)
	return append(b, bz...)
}

// Hasher maps spec keys and values to byte strings.
type Hasher struct {
	Key   func(k int) []byte
	Value func(v int) []byte
	// VerMap maps a spec version to the real version (identity if nil).
	VerMap func(v int64) int64
}

// Hash returns the root hash of t; workVer is the version unsaved nodes will get.
func (h Hasher) Hash(t *model.Tree, workVer int64) []byte {
	if t == nil {
		s := sha256.Sum256(nil)
		return s[:]
	}
	return h.node(t, workVer)
}

func (h Hasher) node(n *model.Tree, workVer int64) []byte {
	ver := n.Ver
	if ver == 0 {
		ver = workVer
	} else if h.VerMap != nil {
		ver = h.VerMap(ver)
	}
	var pre []byte
	pre = putVarint(pre, int64(n.H))
	pre = putVarint(pre, n.Sz)
	pre = putVarint(pre, ver)
	if n.IsLeaf() {
		pre = putBytes(pre, h.Key(n.K))
		vh := sha256.Sum256(h.Value(n.V))
		pre = putBytes(pre, vh[:])
	} else {
		pre = putBytes(pre, h.node(n.L, workVer))
		pre = putBytes(pre, h.node(n.R, workVer))
	}
	s := sha256.Sum256(pre)
	return s[:]
}
