// Package tracegen drives the real library with random calls - it knows the API contract (which
// calls are allowed) but nothing about the specification's expected results - and records one JSON
// line per call: arguments, results, and what the public API shows afterwards. The lines are
// validated by TLC against IavlTrace.tla.
package tracegen

import (
	"encoding/json"
	"errors"
	"fmt"
	"math/rand"
	"runtime/debug"

	"github.com/cosmos/iavl"
	dbm "github.com/cosmos/iavl/db"

	"verif/harness/palette"
)

var logger = iavl.NewNopLogger()

// Node is one exported node: leaves carry their value, inner nodes -1.
type Node struct {
	K   int   `json:"k"`
	V   int   `json:"v"`
	Ver int64 `json:"ver"`
	H   int   `json:"h"`
}

// Event is one recorded call.
type Event struct {
	Op   string `json:"op"`
	K    int    `json:"k"`
	V    int    `json:"v"`
	T    int64  `json:"t"`
	N    int64  `json:"n"`
	Fast bool   `json:"fast"`
	IV   int64  `json:"iv"`
	// results
	Err    bool  `json:"err"`
	Upd    bool  `json:"upd"`
	Rem    bool  `json:"rem"`
	Val    int   `json:"val"`
	RVer   int64 `json:"rver"`
	Exists bool  `json:"exists"`
	// observations after the call
	First  int64  `json:"first"`
	Latest int64  `json:"latest"`
	Ver    int64  `json:"ver"`
	Tgt    int64  `json:"tgt"`
	Reads  []int  `json:"reads"`
	H      int    `json:"h"`
	Sz     int64  `json:"sz"`
	Exp    []Node `json:"exp"`
	// probes and change sets
	S     int    `json:"s"`
	E     int    `json:"e"`
	Asc   bool   `json:"asc"`
	Items []KV   `json:"items"`
	Idx   int64  `json:"idx"`
	BK    int    `json:"bk"`
	BV    int    `json:"bv"`
	CS    []Pair `json:"cs"`
}

// KV is one iterated pair; Pair one change-set entry.
type KV struct {
	K int `json:"k"`
	V int `json:"v"`
}
type Pair struct {
	K   int  `json:"k"`
	V   int  `json:"v"`
	Del bool `json:"del"`
}

// Opts describes one trace.
type Opts struct {
	K, Len       int
	Seed         int64
	Palette      string
	Cache, Flush int
	// EmptyFirstKey: key 1 is the empty byte string (a valid key, the smallest one)
	EmptyFirstKey bool
}

type driver struct {
	o    Opts
	rng  *rand.Rand
	pal  *palette.Palette
	db   *dbm.MemDB
	tree *iavl.MutableTree
	iv   int64
	fast bool
	out  []Event
}

func (d *driver) key(k int) []byte {
	if d.o.EmptyFirstKey && k == 1 {
		return []byte{}
	}
	return d.pal.Key(k)
}

func (d *driver) keyOf(b []byte) int {
	if d.o.EmptyFirstKey && len(b) == 0 {
		return 1
	}
	return d.pal.KeyOf(b)
}

func (d *driver) opts() []iavl.Option {
	o := []iavl.Option{iavl.FlushThresholdOption(d.o.Flush)}
	if d.iv != 0 {
		o = append(o, iavl.InitialVersionOption(uint64(d.iv)))
	}
	return o
}

func (d *driver) open(fast bool) (int64, error) {
	if d.tree != nil {
		_ = d.tree.Close()
	}
	d.fast = fast
	d.tree = iavl.NewMutableTree(d.db, d.o.Cache, !fast, logger, d.opts()...)
	return d.tree.Load()
}

func (d *driver) export(it *iavl.ImmutableTree) ([]Node, error) {
	x, err := it.Export()
	if err != nil {
		return nil, err
	}
	defer x.Close()
	nodes := []Node{}
	for {
		n, err := x.Next()
		if errors.Is(err, iavl.ErrorExportDone) {
			return nodes, nil
		}
		if err != nil {
			return nil, err
		}
		v := -1
		if n.Height == 0 {
			v = d.valueOf(n.Value)
		}
		nodes = append(nodes, Node{K: d.keyOf(n.Key), V: v, Ver: n.Version, H: int(n.Height)})
	}
}

func (d *driver) valueOf(b []byte) int {
	if b == nil {
		b = []byte{}
	}
	return d.pal.ValueOf(b)
}

type reader interface {
	Has(key []byte) (bool, error)
	Get(key []byte) ([]byte, error)
}

func (d *driver) reads(t reader) ([]int, error) {
	r := make([]int, d.o.K)
	for k := 1; k <= d.o.K; k++ {
		has, err := t.Has(d.key(k))
		if err != nil {
			return nil, err
		}
		if !has {
			r[k-1] = -1
			continue
		}
		v, err := t.Get(d.key(k))
		if err != nil {
			return nil, err
		}
		r[k-1] = d.valueOf(v)
	}
	return r, nil
}

// observe fills the observation fields from the public API.
func (d *driver) observe(e *Event) error {
	av := d.tree.AvailableVersions()
	if len(av) > 0 {
		e.First, e.Latest = int64(av[0]), int64(av[len(av)-1])
	}
	e.Ver, e.Tgt = d.tree.Version(), d.tree.WorkingVersion()
	r, err := d.reads(d.tree)
	if err != nil {
		return err
	}
	e.Reads = r
	e.H, e.Sz = int(d.tree.Height()), d.tree.Size()
	if e.Exp == nil {
		e.Exp = []Node{}
	}
	return nil
}

// Generate runs one random history and returns its lines. A panic or an unexpected failure of an
// observation is returned as an error together with the lines so far.
func Generate(o Opts) (lines []string, err error) {
	d := &driver{o: o, rng: rand.New(rand.NewSource(o.Seed)), pal: palette.New(o.Palette, o.K, o.Seed), db: dbm.NewMemDB()}
	defer func() {
		if p := recover(); p != nil {
			err = fmt.Errorf("panic: %v\n%s", p, debug.Stack())
		}
		for _, e := range d.out {
			if e.Items == nil {
				e.Items = []KV{}
			}
			if e.CS == nil {
				e.CS = []Pair{}
			}
			if e.Reads == nil {
				e.Reads = []int{}
			}
			if e.Exp == nil {
				e.Exp = []Node{}
			}
			b, _ := json.Marshal(e)
			lines = append(lines, string(b))
		}
	}()
	rng := d.rng
	d.iv = []int64{0, 0, 1, 5}[rng.Intn(4)]
	fast := rng.Intn(2) == 0
	if _, err := d.open(fast); err != nil {
		return nil, err
	}
	d.out = append(d.out, Event{Op: "open", Fast: fast, IV: d.iv, Reads: []int{}, Exp: []Node{}})
	latest := func() int64 {
		av := d.tree.AvailableVersions()
		if len(av) == 0 {
			return 0
		}
		return int64(av[len(av)-1])
	}
	nvals := 3
	for len(d.out) < o.Len {
		e := Event{}
		lat := latest()
		switch x := rng.Intn(100); {
		case x < 34:
			e.Op, e.K, e.V = "set", 1+rng.Intn(o.K), rng.Intn(nvals)
			upd, err := d.tree.Set(d.key(e.K), d.pal.Value(e.V))
			e.Upd, e.Err = upd, err != nil
		case x < 35:
			e.Op, e.K = "setnil", 1+rng.Intn(o.K)
			_, err := d.tree.Set(d.key(e.K), nil)
			e.Err = err != nil
		case x < 47:
			e.Op, e.K = "rm", 1+rng.Intn(o.K)
			v, rem, err := d.tree.Remove(d.key(e.K))
			e.Rem, e.Err, e.Val = rem, err != nil, -1
			if rem {
				e.Val = d.valueOf(v)
			}
		case x < 61:
			e.Op = "save"
			_, v, err := d.tree.SaveVersion()
			e.Err = err != nil
			if err == nil {
				e.RVer = v
				it, err := d.tree.GetImmutable(v)
				if err != nil {
					return nil, fmt.Errorf("GetImmutable(%d) after SaveVersion: %w", v, err)
				}
				if e.Exp, err = d.export(it); err != nil {
					return nil, fmt.Errorf("export of version %d: %w", v, err)
				}
			}
		case x < 64:
			e.Op = "rollback"
			d.tree.Rollback()
		case x < 68:
			e.Op, e.Fast = "reopen", rng.Intn(2) == 0
			v, err := d.open(e.Fast)
			e.Err, e.RVer = err != nil, v
		case x < 72:
			e.Op, e.T = "load", int64(rng.Intn(int(lat)+2))
			v, err := d.tree.LoadVersion(e.T)
			e.Err = err != nil
			if err == nil {
				e.RVer = v
			}
		case x < 75:
			e.Op, e.T = "lvfo", 1+int64(rng.Intn(int(lat)+1))
			e.Err = d.tree.LoadVersionForOverwriting(e.T) != nil
		case x < 81:
			// contract (doc.go): the version the handle has loaded is not deleted under it
			n := int64(rng.Intn(int(lat) + 2))
			if !(n < d.tree.Version() || n >= lat) {
				continue
			}
			e.Op, e.N = "delto", n
			e.Err = d.tree.DeleteVersionsTo(n) != nil
		case x < 84:
			// SaveChangeSet: one or two pairs
			e.Op = "savecs"
			cs := &iavl.ChangeSet{}
			for n := 1 + rng.Intn(2); n > 0; n-- {
				p := Pair{K: 1 + rng.Intn(o.K), V: rng.Intn(nvals), Del: rng.Intn(4) == 0}
				if p.Del {
					p.V = 0
				}
				e.CS = append(e.CS, p)
				kp := &iavl.KVPair{Key: d.key(p.K), Delete: p.Del}
				if !p.Del {
					kp.Value = d.pal.Value(p.V)
				}
				cs.Pairs = append(cs.Pairs, kp)
			}
			v, err := d.tree.SaveChangeSet(cs)
			e.Err = err != nil
			if err == nil {
				e.RVer = v
				it, err := d.tree.GetImmutable(v)
				if err != nil {
					return nil, fmt.Errorf("GetImmutable(%d) after SaveChangeSet: %w", v, err)
				}
				if e.Exp, err = d.export(it); err != nil {
					return nil, fmt.Errorf("export of version %d: %w", v, err)
				}
			}
		case x < 85 && lat > 0:
			// export a retained version, import it into an empty store, go on there
			av := d.tree.AvailableVersions()
			e.Op, e.T, e.Fast = "import", int64(av[rng.Intn(len(av))]), rng.Intn(2) == 0
			it, err := d.tree.GetImmutable(e.T)
			if err != nil {
				return nil, fmt.Errorf("GetImmutable(%d) of an available version: %w", e.T, err)
			}
			x, err := it.Export()
			if err != nil {
				return nil, fmt.Errorf("Export: %w", err)
			}
			compress := rng.Intn(2) == 0
			var src iavl.NodeExporter = x
			if compress {
				src = iavl.NewCompressExporter(x)
			}
			var nodes []*iavl.ExportNode
			for {
				n, err := src.Next()
				if errors.Is(err, iavl.ErrorExportDone) {
					break
				}
				if err != nil {
					x.Close()
					return nil, fmt.Errorf("Exporter.Next: %w", err)
				}
				nodes = append(nodes, n)
			}
			x.Close()
			_ = d.tree.Close()
			d.db = dbm.NewMemDB()
			d.tree = nil
			if _, err := d.open(e.Fast); err != nil {
				return nil, fmt.Errorf("Load() of the empty target store: %w", err)
			}
			imp, err := d.tree.Import(e.T)
			if err != nil {
				return nil, fmt.Errorf("Import(%d): %w", e.T, err)
			}
			var dst iavl.NodeImporter = imp
			if compress {
				dst = iavl.NewCompressImporter(imp)
			}
			for _, n := range nodes {
				if err := dst.Add(n); err != nil {
					imp.Close()
					return nil, fmt.Errorf("Importer.Add: %w", err)
				}
			}
			if err := imp.Commit(); err != nil {
				return nil, fmt.Errorf("Importer.Commit: %w", err)
			}
			imp.Close()
			// the importing handle goes on at the imported version
			if _, err := d.tree.LoadVersion(e.T); err != nil {
				return nil, fmt.Errorf("LoadVersion(%d) after the import: %w", e.T, err)
			}
			it2, err := d.tree.GetImmutable(e.T)
			if err != nil {
				return nil, fmt.Errorf("GetImmutable(%d) after the import: %w", e.T, err)
			}
			if e.Exp, err = d.export(it2); err != nil {
				return nil, fmt.Errorf("export of the imported version: %w", err)
			}
		case x < 89:
			// iteration over [s, e) of the working tree or of a retained version
			e.Op, e.T, e.S, e.E, e.Asc = "iter", -1, rng.Intn(o.K+2)-1, rng.Intn(o.K+2)-1, rng.Intn(2) == 0
			if e.S == 0 {
				e.S = -1
			}
			if e.E == 0 {
				e.E = -1
			}
			bound := func(x int) []byte {
				if x < 0 {
					return nil
				}
				return d.key(x)
			}
			var itr interface {
				Valid() bool
				Next()
				Key() []byte
				Value() []byte
				Error() error
				Close() error
			}
			var err error
			if av := d.tree.AvailableVersions(); len(av) > 0 && rng.Intn(2) == 0 {
				e.T = int64(av[rng.Intn(len(av))])
				it, gerr := d.tree.GetImmutable(e.T)
				if gerr != nil {
					return nil, fmt.Errorf("GetImmutable(%d) of an available version: %w", e.T, gerr)
				}
				itr, err = it.Iterator(bound(e.S), bound(e.E), e.Asc)
			} else {
				itr, err = d.tree.Iterator(bound(e.S), bound(e.E), e.Asc)
			}
			if err != nil {
				return nil, fmt.Errorf("Iterator: %w", err)
			}
			e.Items = []KV{}
			for ; itr.Valid(); itr.Next() {
				e.Items = append(e.Items, KV{K: d.keyOf(itr.Key()), V: d.valueOf(itr.Value())})
			}
			if err := itr.Error(); err != nil {
				return nil, fmt.Errorf("iterator error: %w", err)
			}
			itr.Close()
			d.out = append(d.out, e)
			continue
		case x < 92:
			// lookup by key with rank, lookup by rank
			e.Op, e.T, e.K = "index", -1, 1+rng.Intn(o.K)
			var it *iavl.ImmutableTree = d.tree.ImmutableTree
			if av := d.tree.AvailableVersions(); len(av) > 0 && rng.Intn(2) == 0 {
				e.T = int64(av[rng.Intn(len(av))])
				var gerr error
				if it, gerr = d.tree.GetImmutable(e.T); gerr != nil {
					return nil, fmt.Errorf("GetImmutable(%d) of an available version: %w", e.T, gerr)
				}
			}
			idx, val, err := it.GetWithIndex(d.key(e.K))
			if err != nil {
				return nil, fmt.Errorf("GetWithIndex: %w", err)
			}
			has, err := it.Has(d.key(e.K))
			if err != nil {
				return nil, fmt.Errorf("Has: %w", err)
			}
			e.Idx, e.Val = idx, -1
			if has {
				e.Val = d.valueOf(val)
			}
			e.N = int64(rng.Intn(int(it.Size())+3)) - 1
			bk, bv, err := it.GetByIndex(e.N)
			if err != nil {
				return nil, fmt.Errorf("GetByIndex: %w", err)
			}
			if bk != nil {
				e.BK, e.BV = d.keyOf(bk), d.valueOf(bv)
			}
			d.out = append(d.out, e)
			continue
		default:
			e.Op, e.T = "versioned", int64(rng.Intn(int(lat)+2))
			e.Exists = d.tree.VersionExists(e.T)
			if e.Exists {
				it, err := d.tree.GetImmutable(e.T)
				if err != nil {
					return nil, fmt.Errorf("GetImmutable(%d) of an existing version: %w", e.T, err)
				}
				if e.Reads, err = d.reads(it); err != nil {
					return nil, err
				}
				if e.Exp, err = d.export(it); err != nil {
					return nil, err
				}
			} else {
				e.Reads = []int{}
			}
			if e.Exp == nil {
				e.Exp = []Node{}
			}
			d.out = append(d.out, e)
			continue
		}
		if err := d.observe(&e); err != nil {
			d.out = append(d.out, e)
			return nil, fmt.Errorf("observation after %s: %w", e.Op, err)
		}
		d.out = append(d.out, e)
	}
	_ = d.tree.Close()
	return nil, nil
}
