// Package model holds the Go mirror of the records the TLA+ specification prints:
// structural trees and the step records of a behaviour. Nothing here computes an
// expected value; it only carries what TLC computed.
package model

import (
	"encoding/json"
	"fmt"
	"strconv"
	"strings"
)

// Tree is a structural IAVL+ tree as printed by the specification (IAVLTree.tla).
// A nil *Tree is the empty tree.
type Tree struct {
	H   int   `json:"h"`
	Sz  int64 `json:"sz"`
	K   int   `json:"k"`
	V   int   `json:"v"`
	Ver int64 `json:"ver"`
	ID  int64 `json:"id"`
	L   *Tree `json:"l,omitempty"`
	R   *Tree `json:"r,omitempty"`
}

type rawTree struct {
	Nil *bool           `json:"nil"`
	H   int             `json:"h"`
	Sz  int64           `json:"sz"`
	K   int             `json:"k"`
	V   int             `json:"v"`
	Ver int64           `json:"ver"`
	ID  int64           `json:"id"`
	L   json.RawMessage `json:"l"`
	R   json.RawMessage `json:"r"`
}

// ParseTree decodes a tree; {"nil":true} is the empty tree.
func ParseTree(b json.RawMessage) (*Tree, error) {
	if len(b) == 0 || string(b) == "null" {
		return nil, nil
	}
	var r rawTree
	if err := json.Unmarshal(b, &r); err != nil {
		return nil, err
	}
	if r.Nil != nil {
		return nil, nil
	}
	t := &Tree{H: r.H, Sz: r.Sz, K: r.K, V: r.V, Ver: r.Ver, ID: r.ID}
	if r.H > 0 {
		var err error
		if t.L, err = ParseTree(r.L); err != nil {
			return nil, err
		}
		if t.R, err = ParseTree(r.R); err != nil {
			return nil, err
		}
		if t.L == nil || t.R == nil {
			return nil, fmt.Errorf("inner node without two children")
		}
	}
	return t, nil
}

func (t *Tree) IsLeaf() bool { return t.H == 0 }

// Leaves returns the leaves in key order (the spec's Pairs).
func (t *Tree) Leaves() []*Tree {
	var out []*Tree
	var rec func(n *Tree)
	rec = func(n *Tree) {
		if n == nil {
			return
		}
		if n.IsLeaf() {
			out = append(out, n)
			return
		}
		rec(n.L)
		rec(n.R)
	}
	rec(t)
	return out
}

// Lookup projects the value of key k out of the tree the specification printed
// (in-order scan of the leaves: deliberately not the routing-key search).
func (t *Tree) Lookup(k int) (int, bool) {
	for _, l := range t.Leaves() {
		if l.K == k {
			return l.V, true
		}
	}
	return 0, false
}

func (t *Tree) Size() int64 {
	if t == nil {
		return 0
	}
	return t.Sz
}

func (t *Tree) Height() int {
	if t == nil {
		return 0
	}
	return t.H
}

// AllNodes returns every node in pre-order.
func (t *Tree) AllNodes() []*Tree {
	var out []*Tree
	var rec func(n *Tree)
	rec = func(n *Tree) {
		if n == nil {
			return
		}
		out = append(out, n)
		rec(n.L)
		rec(n.R)
	}
	rec(t)
	return out
}

func (t *Tree) String() string {
	if t == nil {
		return "nil"
	}
	if t.IsLeaf() {
		return fmt.Sprintf("(%d=%d v%d#%d)", t.K, t.V, t.Ver, t.ID)
	}
	return fmt.Sprintf("[%d h%d s%d v%d#%d %s %s]", t.K, t.H, t.Sz, t.Ver, t.ID, t.L, t.R)
}

// Step is one action of a behaviour together with the expected observable state after it.
type Step struct {
	Op     string          `json:"op"`
	A      json.RawMessage `json:"a"`
	R      json.RawMessage `json:"r"`
	First  int64           `json:"first"`
	Latest int64           `json:"latest"`
	Ver    int64           `json:"ver"`
	Fast   bool            `json:"fast"`
	IV     int64           `json:"iv"`
	Tgt    int64           `json:"tgt"`
	WorkJ  json.RawMessage `json:"work"`
	X      json.RawMessage `json:"x,omitempty"` // extra, spec-computed expectations

	Args Args  `json:"-"`
	Ret  Ret   `json:"-"`
	Work *Tree `json:"-"`
}

type CSPair struct {
	K   int  `json:"k"`
	V   int  `json:"v"`
	Del bool `json:"del"`
}

type Args struct {
	CS   []CSPair `json:"cs"`
	K    int      `json:"k"`
	V    int      `json:"v"`
	T    int64    `json:"t"`
	N    int64    `json:"n"`
	Fast bool     `json:"fast"`
}

type Ret struct {
	Upd   bool            `json:"upd"`
	Rem   bool            `json:"rem"`
	Val   int             `json:"val"`
	Err   bool            `json:"err"`
	Noop  bool            `json:"noop"`
	Ver   int64           `json:"ver"`
	TreeJ json.RawMessage `json:"tree"`
	Tree  *Tree           `json:"-"`
	CS    []CSPair        `json:"cs"`
	NF    bool            `json:"nf"`
	Pred  int64           `json:"pred"`
	Dirty bool            `json:"dirty"`
}

type Behaviour struct {
	Steps []*Step
	Phys  []*Phys // physical expectations parallel to Steps (IavlStore.tla), or nil
	V2    []*V2St // v2 persistence expectations parallel to Steps (IavlV2.tla), or nil
	Raw   string  // the JSON text, for replay files
}

// NodeKey is a storage key of the s key space.
type NodeKey struct {
	Ver int64 `json:"ver"`
	ID  int64 `json:"id"`
}

// DiskEntry is one expected entry of the s key space.
type DiskEntry struct {
	Key  NodeKey `json:"key"`
	Kind string  `json:"kind"` // leaf | inner | empty | ref
	H    int     `json:"h"`
	Sz   int64   `json:"sz"`
	K    int     `json:"k"`
	V    int     `json:"v"`
	L    NodeKey `json:"l"`
	R    NodeKey `json:"r"`
	TVer int64   `json:"tver"`
	TID  int64   `json:"tid"`
}

type FastEntry struct {
	K   int   `json:"k"`
	Val int   `json:"val"`
	Ver int64 `json:"ver"`
}

// V2St is the v2 persistence state after a step.
type V2St struct {
	Ckpts    []int64 `json:"ckpts"`
	Pruned   int64   `json:"pruned"`
	Loadable []int64 `json:"loadable"`
	CI       int64   `json:"ci"`
}

// Phys is the expected physical state after a step.
type Phys struct {
	Label int64       `json:"label"`
	Built int64       `json:"built"`
	Stale bool        `json:"stale"`
	Fidx  []FastEntry `json:"fidx"`
	Disk  []DiskEntry `json:"disk"`
}

// ParseBehaviour decodes the JSON array of steps.
func ParseBehaviour(js string) (*Behaviour, error) {
	var steps []*Step
	var phys []*Phys
	var v2 []*V2St
	if len(js) > 0 && js[0] == '{' {
		var both struct {
			H  []*Step `json:"h"`
			P  []*Phys `json:"p"`
			V2 []*V2St `json:"v2"`
		}
		if err := json.Unmarshal([]byte(js), &both); err != nil {
			return nil, err
		}
		steps, phys = both.H, both.P
		v2 = both.V2
		if phys != nil && len(phys) != len(steps) {
			return nil, fmt.Errorf("physical history has %d records for %d steps", len(phys), len(steps))
		}
	} else if err := json.Unmarshal([]byte(js), &steps); err != nil {
		return nil, err
	}
	for i, s := range steps {
		if len(s.A) > 0 && s.A[0] == '{' {
			if err := json.Unmarshal(s.A, &s.Args); err != nil {
				return nil, fmt.Errorf("step %d args: %w", i, err)
			}
		}
		if len(s.R) > 0 && s.R[0] == '{' {
			if err := json.Unmarshal(s.R, &s.Ret); err != nil {
				return nil, fmt.Errorf("step %d ret: %w", i, err)
			}
			t, err := ParseTree(s.Ret.TreeJ)
			if err != nil {
				return nil, fmt.Errorf("step %d ret.tree: %w", i, err)
			}
			s.Ret.Tree = t
		}
		w, err := ParseTree(s.WorkJ)
		if err != nil {
			return nil, fmt.Errorf("step %d work: %w", i, err)
		}
		s.Work = w
	}
	return &Behaviour{Steps: steps, Phys: phys, V2: v2, Raw: js}, nil
}

// ExtractJSON takes a TLC output line of the form <<"TAG", "....">> and returns the
// unescaped JSON payload; ok is false if the line is not such a line.
func ExtractJSON(line, tag string) (string, bool) {
	prefix := `<<"` + tag + `", `
	if !strings.HasPrefix(line, prefix) || !strings.HasSuffix(line, ">>") {
		return "", false
	}
	q := line[len(prefix) : len(line)-2]
	s, err := strconv.Unquote(q)
	if err != nil {
		return "", false
	}
	return s, true
}

// Summary renders a behaviour compactly (for evidence samples).
func (b *Behaviour) Summary() string {
	var sb strings.Builder
	for i, s := range b.Steps {
		if i > 0 {
			sb.WriteString("; ")
		}
		switch s.Op {
		case "set":
			fmt.Fprintf(&sb, "set %d=%d", s.Args.K, s.Args.V)
		case "setnil":
			fmt.Fprintf(&sb, "setnil %d", s.Args.K)
		case "rm":
			fmt.Fprintf(&sb, "rm %d", s.Args.K)
		case "save":
			if s.Ret.Err {
				sb.WriteString("save!err")
			} else if s.Ret.Noop {
				fmt.Fprintf(&sb, "save=%d(noop)", s.Ret.Ver)
			} else {
				fmt.Fprintf(&sb, "save=%d", s.Ret.Ver)
			}
		case "savecs":
			sb.WriteString("savecs[")
			for j, c := range s.Args.CS {
				if j > 0 {
					sb.WriteString(",")
				}
				if c.Del {
					fmt.Fprintf(&sb, "del %d", c.K)
				} else {
					fmt.Fprintf(&sb, "%d=%d", c.K, c.V)
				}
			}
			if s.Ret.Err {
				sb.WriteString("]!err")
			} else {
				fmt.Fprintf(&sb, "]=%d", s.Ret.Ver)
			}
		case "open":
			fmt.Fprintf(&sb, "open(fast=%v,iv=%d)", s.Args.Fast, s.IV)
		case "reopenat":
			fmt.Fprintf(&sb, "reopenat %d(fast=%v)", s.Args.T, s.Args.Fast)
		case "expopen", "expclose":
			fmt.Fprintf(&sb, "%s %d", s.Op, s.Args.T)
		case "v2delto":
			fmt.Fprintf(&sb, "v2delto %d", s.Args.N)
		case "reopen":
			fmt.Fprintf(&sb, "reopen(fast=%v)", s.Args.Fast)
		case "load":
			fmt.Fprintf(&sb, "load %d%s", s.Args.T, errMark(s.Ret.Err))
		case "lvfo":
			fmt.Fprintf(&sb, "lvfo %d%s", s.Args.T, errMark(s.Ret.Err))
		case "delto":
			fmt.Fprintf(&sb, "delto %d%s", s.Args.N, errMark(s.Ret.Err))
		case "import":
			fmt.Fprintf(&sb, "import %d(fast=%v)", s.Args.T, s.Args.Fast)
		default:
			sb.WriteString(s.Op)
		}
	}
	return sb.String()
}

func errMark(e bool) string {
	if e {
		return "!err"
	}
	return ""
}
