// Package faultdb wraps a store to (a) count and classify the storage calls the library issues,
// (b) fail the i-th call, (c) snapshot the store after every physical batch write (crash images).
package faultdb

import (
	"errors"
	"sync"

	corestore "cosmossdk.io/core/store"
	dbm "github.com/cosmos/iavl/db"
)

// ErrInjected is the storage failure.
var ErrInjected = errors.New("injected storage failure")

type DB struct {
	inner  corestore.KVStoreWithBatch
	mu     sync.Mutex
	n      int // calls seen so far
	FailAt int // index of the call that fails (-1: none)
	// Persist: every call from FailAt on fails (the storage stays broken until the operation returns)
	Persist bool
	Fired  bool
	Kinds  []string // kind of every call, by index
	// crash images: a copy of the whole store after each physical write
	Snap   bool
	Images []map[string][]byte
	// Writes counts physical batch writes
	Writes int
}

func New(inner corestore.KVStoreWithBatch) *DB { return &DB{inner: inner, FailAt: -1} }

// Calls returns the number of storage calls seen.
func (d *DB) Calls() int { d.mu.Lock(); defer d.mu.Unlock(); return d.n }

// hit registers a call and says whether it must fail.
func (d *DB) hit(kind string) bool {
	d.mu.Lock()
	defer d.mu.Unlock()
	i := d.n
	d.n++
	d.Kinds = append(d.Kinds, kind)
	if i == d.FailAt || (d.Persist && d.FailAt >= 0 && i > d.FailAt) {
		d.Fired = true
		return true
	}
	return false
}

func (d *DB) Get(key []byte) ([]byte, error) {
	if d.hit("Get") {
		return nil, ErrInjected
	}
	return d.inner.Get(key)
}

func (d *DB) Has(key []byte) (bool, error) {
	if d.hit("Has") {
		return false, ErrInjected
	}
	return d.inner.Has(key)
}

func (d *DB) Set(key, value []byte) error {
	if d.hit("Set") {
		return ErrInjected
	}
	return d.inner.Set(key, value)
}

func (d *DB) Delete(key []byte) error {
	if d.hit("Delete") {
		return ErrInjected
	}
	return d.inner.Delete(key)
}

func (d *DB) Iterator(start, end []byte) (corestore.Iterator, error) {
	if d.hit("Iterator") {
		return nil, ErrInjected
	}
	it, err := d.inner.Iterator(start, end)
	if err != nil {
		return nil, err
	}
	return &iter{Iterator: it, d: d}, nil
}

func (d *DB) ReverseIterator(start, end []byte) (corestore.Iterator, error) {
	if d.hit("ReverseIterator") {
		return nil, ErrInjected
	}
	it, err := d.inner.ReverseIterator(start, end)
	if err != nil {
		return nil, err
	}
	return &iter{Iterator: it, d: d}, nil
}

func (d *DB) Close() error { return nil }

func (d *DB) NewBatch() corestore.Batch { return &batch{Batch: d.inner.NewBatch(), d: d} }
func (d *DB) NewBatchWithSize(n int) corestore.Batch {
	return &batch{Batch: d.inner.NewBatchWithSize(n), d: d}
}

// iter fails at a step: from then on it is invalid and reports the error.
type iter struct {
	corestore.Iterator
	d   *DB
	err error
}

func (i *iter) Valid() bool {
	if i.err != nil {
		return false
	}
	return i.Iterator.Valid()
}

func (i *iter) Next() {
	if i.err != nil {
		return
	}
	if i.d.hit("IterNext") {
		i.err = ErrInjected
		return
	}
	i.Iterator.Next()
}

func (i *iter) Error() error {
	if i.err != nil {
		return i.err
	}
	return i.Iterator.Error()
}

type batch struct {
	corestore.Batch
	d *DB
}

func (b *batch) Set(k, v []byte) error {
	if b.d.hit("BatchSet") {
		return ErrInjected
	}
	return b.Batch.Set(k, v)
}

func (b *batch) Delete(k []byte) error {
	if b.d.hit("BatchDelete") {
		return ErrInjected
	}
	return b.Batch.Delete(k)
}

func (b *batch) write(sync bool) error {
	if b.d.hit("BatchWrite") {
		return ErrInjected
	}
	var err error
	if sync {
		err = b.Batch.WriteSync()
	} else {
		err = b.Batch.Write()
	}
	if err == nil {
		b.d.mu.Lock()
		b.d.Writes++
		snap := b.d.Snap
		b.d.mu.Unlock()
		if snap {
			img := Dump(b.d.inner)
			b.d.mu.Lock()
			b.d.Images = append(b.d.Images, img)
			b.d.mu.Unlock()
		}
	}
	return err
}

func (b *batch) Write() error     { return b.write(false) }
func (b *batch) WriteSync() error { return b.write(true) }

// Dump copies the whole store.
func Dump(db corestore.KVStoreWithBatch) map[string][]byte {
	out := map[string][]byte{}
	it, err := db.Iterator(nil, nil)
	if err != nil {
		panic(err)
	}
	defer it.Close()
	for ; it.Valid(); it.Next() {
		out[string(it.Key())] = append([]byte{}, it.Value()...)
	}
	return out
}

// Restore builds a MemDB from an image.
func Restore(img map[string][]byte) *dbm.MemDB {
	db := dbm.NewMemDB()
	for k, v := range img {
		if err := db.Set([]byte(k), v); err != nil {
			panic(err)
		}
	}
	return db
}
