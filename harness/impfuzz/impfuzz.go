// Package impfuzz feeds node streams enumerated by TLC from ImportFuzz.tla to the real importer.
package impfuzz

import (
	"bytes"
	"encoding/json"
	"errors"
	"fmt"
	"runtime/debug"
	"time"

	"github.com/cosmos/iavl"
	dbm "github.com/cosmos/iavl/db"
)

type FNode struct {
	H   int    `json:"h"`
	Ver int64  `json:"ver"`
	Key string `json:"key"`
	Val string `json:"val"`
}

type Call struct {
	Op   string `json:"op"`
	N    FNode  `json:"n"`
	Err  bool   `json:"err"`
	Size int64  `json:"size"`
}

type Stream struct {
	IV    int64  `json:"iv"`
	Calls []Call `json:"calls"`
}

func Parse(js string) (*Stream, error) {
	var s Stream
	if err := json.Unmarshal([]byte(js), &s); err != nil {
		return nil, err
	}
	return &s, nil
}

func sym(s string) []byte {
	switch s {
	case "nil":
		return nil
	case "empty":
		return []byte{}
	}
	return []byte(s)
}

func (s *Stream) String() string {
	var sb bytes.Buffer
	fmt.Fprintf(&sb, "import(%d):", s.IV)
	for _, c := range s.Calls {
		if c.Op == "add" {
			fmt.Fprintf(&sb, " add{h=%d v=%d k=%s val=%s}", c.N.H, c.N.Ver, c.N.Key, c.N.Val)
		} else {
			fmt.Fprintf(&sb, " %s", c.Op)
		}
		if c.Err {
			sb.WriteString("!err")
		}
	}
	return sb.String()
}

// Result of one stream: "" if everything agreed.
type Result struct {
	Msg   string
	Panic bool
	Hang  bool
}

var logger = iavl.NewNopLogger()

// Run executes the stream on a fresh store under a deadline.
func Run(s *Stream, fast bool) Result {
	ch := make(chan Result, 1)
	go func() {
		defer func() {
			if r := recover(); r != nil {
				ch <- Result{Msg: fmt.Sprintf("panic: %v\n%s", r, debug.Stack()), Panic: true}
			}
		}()
		ch <- Result{Msg: run(s, fast)}
	}()
	select {
	case r := <-ch:
		return r
	case <-time.After(180 * time.Second):
		return Result{Msg: "the importer did not return within 180s", Hang: true}
	}
}

func run(s *Stream, fast bool) string {
	db := dbm.NewMemDB()
	tree := iavl.NewMutableTree(db, 100, !fast, logger)
	if _, err := tree.Load(); err != nil {
		return "Load of the empty store: " + err.Error()
	}
	imp, err := tree.Import(s.IV)
	if err != nil {
		return "Import: " + err.Error()
	}
	committed := false
	var accepted []*iavl.ExportNode
	for i, c := range s.Calls {
		switch c.Op {
		case "add":
			n := &iavl.ExportNode{Key: sym(c.N.Key), Value: sym(c.N.Val), Version: c.N.Ver, Height: int8(c.N.H)}
			err := imp.Add(n)
			if (err != nil) != c.Err {
				return fmt.Sprintf("call %d Add: specification says %s, importer says %v", i, errs(c.Err), err)
			}
			if err == nil {
				accepted = append(accepted, n)
			}
		case "commit":
			err := imp.Commit()
			if (err != nil) != c.Err {
				return fmt.Sprintf("call %d Commit: specification says %s, importer says %v", i, errs(c.Err), err)
			}
			committed = err == nil
			if err != nil {
				imp.Close()
			}
		case "close":
			imp.Close()
		}
	}
	// what is visible afterwards, through a new handle
	h := iavl.NewMutableTree(db, 0, true, logger)
	v, err := h.Load()
	if err != nil {
		return "Load after the import: " + err.Error()
	}
	if !committed {
		if v != 0 || len(h.AvailableVersions()) != 0 {
			return fmt.Sprintf("without a successful Commit version %d is visible (available %v)", v, h.AvailableVersions())
		}
		itr, _ := db.Iterator(nil, nil)
		defer itr.Close()
		for ; itr.Valid(); itr.Next() {
			if itr.Key()[0] == 's' {
				return fmt.Sprintf("without a successful Commit the store holds node key %x", itr.Key())
			}
		}
		return ""
	}
	if v != s.IV {
		return fmt.Sprintf("after Commit Load() = %d, expected %d", v, s.IV)
	}
	want := s.Calls[len(s.Calls)-1].Size
	if h.Size() != want {
		return fmt.Sprintf("after Commit Size() = %d, expected %d", h.Size(), want)
	}
	_ = h.Hash()
	n := 0
	if _, err := h.Iterate(func(k, v []byte) bool { n++; return false }); err != nil {
		return "Iterate over the imported tree: " + err.Error()
	}
	// an accepted stream is exported again unchanged
	it, err := h.GetImmutable(s.IV)
	if err != nil {
		return "GetImmutable of the imported version: " + err.Error()
	}
	exp, err := it.Export()
	if err != nil {
		return "Export of the imported version: " + err.Error()
	}
	defer exp.Close()
	for i := 0; ; i++ {
		x, err := exp.Next()
		if errors.Is(err, iavl.ErrorExportDone) {
			if i != len(accepted) {
				return fmt.Sprintf("re-export yields %d nodes, %d were imported", i, len(accepted))
			}
			break
		}
		if err != nil {
			return "re-export: " + err.Error()
		}
		if i >= len(accepted) {
			return "re-export yields more nodes than were imported"
		}
		a := accepted[i]
		if !bytes.Equal(a.Key, x.Key) || !bytes.Equal(a.Value, x.Value) || a.Version != x.Version || a.Height != x.Height {
			return fmt.Sprintf("re-export node %d = %+v, imported %+v", i, x, a)
		}
	}
	return ""
}

func errs(b bool) string {
	if b {
		return "error"
	}
	return "no error"
}

// RunCompressed feeds the stream to the compressed importer (NewCompressImporter). The fields are then
// interpreted as the compressed encoding (delta-encoded keys, version deltas): no prediction of the
// error-ness exists, the totality clause alone is judged - no panic, no hang, nothing visible unless
// Commit succeeded, and a committed store opens.
func RunCompressed(s *Stream, fast bool) Result {
	ch := make(chan Result, 1)
	go func() {
		defer func() {
			if r := recover(); r != nil {
				ch <- Result{Msg: fmt.Sprintf("panic in the compressed importer: %v\n%s", r, debug.Stack()), Panic: true}
			}
		}()
		ch <- Result{Msg: runCompressed(s, fast)}
	}()
	select {
	case r := <-ch:
		return r
	case <-time.After(180 * time.Second):
		return Result{Msg: "the compressed importer did not return within 180s", Hang: true}
	}
}

func runCompressed(s *Stream, fast bool) string {
	db := dbm.NewMemDB()
	tree := iavl.NewMutableTree(db, 100, !fast, logger)
	if _, err := tree.Load(); err != nil {
		return err.Error()
	}
	imp, err := tree.Import(s.IV)
	if err != nil {
		return err.Error()
	}
	ci := iavl.NewCompressImporter(imp)
	committed := false
	for _, c := range s.Calls {
		switch c.Op {
		case "add":
			_ = ci.Add(&iavl.ExportNode{Key: sym(c.N.Key), Value: sym(c.N.Val), Version: c.N.Ver, Height: int8(c.N.H)})
		case "commit":
			committed = imp.Commit() == nil
			if !committed {
				imp.Close()
			}
		case "close":
			imp.Close()
		}
	}
	h := iavl.NewMutableTree(db, 0, true, logger)
	v, err := h.Load()
	if err != nil {
		return "Load after the compressed import: " + err.Error()
	}
	if !committed && (v != 0 || len(h.AvailableVersions()) != 0) {
		return fmt.Sprintf("compressed import without a successful Commit: version %d visible", v)
	}
	if committed {
		if _, err := h.Iterate(func(k, v []byte) bool { return false }); err != nil {
			return "Iterate over the tree imported through the compressed importer: " + err.Error()
		}
	}
	return ""
}
