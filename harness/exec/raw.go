package exec

import (
	"bytes"
	"encoding/binary"
	"errors"
	"fmt"
	"sort"
	"strconv"
	"strings"

	"verif/harness/model"
)

// An independent decoder of the pinned on-disk format (it shares no code with the library):
//
//	key   's' ver(8, big endian) nonce(4, big endian)          node or root marker
//	value leaf : varint(0) varint(1) bytes(key) bytes(value)
//	      inner: varint(h) varint(size) bytes(key) bytes(hash, 32) varint(mode=0)
//	             varint(lver) varint(lnonce) varint(rver) varint(rnonce)
//	      root marker: "" (empty tree) | 's' ver(8) nonce(4) (reference)
//	key   'f' key          value varint(version) bytes(value)
//	key   'm' "storage_version"   value "1.1.0-<version>"
type rawNode struct {
	leaf     bool
	h        int64
	sz       int64
	key, val []byte
	hash     []byte
	l, r     model.NodeKey
	marker   string // "" | "empty" | "ref"
	ref      model.NodeKey
}

var errShort = errors.New("truncated")

func rdVarint(b []byte) (int64, []byte, error) {
	v, n := binary.Varint(b)
	if n <= 0 {
		return 0, nil, errShort
	}
	return v, b[n:], nil
}

func rdBytes(b []byte) ([]byte, []byte, error) {
	l, n := binary.Uvarint(b)
	if n <= 0 || uint64(len(b)-n) < l {
		return nil, nil, errShort
	}
	return b[n : n+int(l)], b[n+int(l):], nil
}

func decodeS(val []byte) (*rawNode, error) {
	if len(val) == 0 {
		return &rawNode{marker: "empty"}, nil
	}
	if val[0] == 's' {
		if len(val) != 13 {
			return nil, fmt.Errorf("reference root of length %d", len(val))
		}
		return &rawNode{marker: "ref", ref: model.NodeKey{Ver: int64(binary.BigEndian.Uint64(val[1:9])), ID: int64(binary.BigEndian.Uint32(val[9:13]))}}, nil
	}
	n := &rawNode{}
	var err error
	b := val
	if n.h, b, err = rdVarint(b); err != nil {
		return nil, err
	}
	if n.sz, b, err = rdVarint(b); err != nil {
		return nil, err
	}
	if n.key, b, err = rdBytes(b); err != nil {
		return nil, err
	}
	if n.h == 0 {
		n.leaf = true
		if n.val, b, err = rdBytes(b); err != nil {
			return nil, err
		}
	} else {
		if n.hash, b, err = rdBytes(b); err != nil {
			return nil, err
		}
		var mode int64
		if mode, b, err = rdVarint(b); err != nil {
			return nil, err
		}
		if mode != 0 {
			return nil, fmt.Errorf("mode %d in a store without legacy nodes", mode)
		}
		if n.l.Ver, b, err = rdVarint(b); err != nil {
			return nil, err
		}
		if n.l.ID, b, err = rdVarint(b); err != nil {
			return nil, err
		}
		if n.r.Ver, b, err = rdVarint(b); err != nil {
			return nil, err
		}
		if n.r.ID, b, err = rdVarint(b); err != nil {
			return nil, err
		}
	}
	if len(b) != 0 {
		return nil, fmt.Errorf("%d trailing bytes", len(b))
	}
	return n, nil
}

// SweepRaw: C12 / C13 (library writes, independent decoder reads) / C07 (raw index).
func (e *Executor) SweepRaw(i int, op string) *Violation {
	ph := e.curPhys
	itr, err := e.db.Iterator(nil, nil)
	if err != nil {
		panic(err)
	}
	type ent struct{ k, v []byte }
	var all []ent
	for ; itr.Valid(); itr.Next() {
		all = append(all, ent{append([]byte(nil), itr.Key()...), append([]byte{}, itr.Value()...)})
	}
	itr.Close()
	p := e.Cfg.Pal
	gotFast := map[string]string{}
	label := int64(-1)
	// every s entry decoded by the independent decoder
	nodes := map[model.NodeKey]*rawNode{}
	for _, kv := range all {
		switch kv.k[0] {
		case 's':
			if len(kv.k) != 13 {
				return viol("raw", i, op, fmt.Sprintf("node key %x", kv.k), "13 bytes", len(kv.k))
			}
			nk := model.NodeKey{Ver: int64(binary.BigEndian.Uint64(kv.k[1:9])), ID: int64(binary.BigEndian.Uint32(kv.k[9:13]))}
			n, err := decodeS(kv.v)
			if err != nil {
				return viol("raw", i, op, fmt.Sprintf("entry s(%d,%d) decodes with the pinned format", nk.Ver, nk.ID), "ok", err)
			}
			nodes[nk] = n
		case 'f':
			ver, rest, err := rdVarint(kv.v)
			if err != nil {
				return viol("raw", i, op, fmt.Sprintf("fast entry %x decodes", kv.k), "ok", err)
			}
			val, rest, err := rdBytes(rest)
			if err != nil || len(rest) != 0 {
				return viol("raw", i, op, fmt.Sprintf("fast entry %x decodes", kv.k), "ok", fmt.Sprint(err, " trailing ", len(rest)))
			}
			gotFast[string(kv.k[1:])] = fmt.Sprintf("%x@%d", val, ver)
		case 'm':
			if string(kv.k[1:]) != "storage_version" {
				return viol("raw", i, op, "metadata keys", "only storage_version", string(kv.k))
			}
			parts := strings.Split(string(kv.v), "-")
			if len(parts) != 2 || parts[0] != "1.1.0" {
				return viol("raw", i, op, "storage version label", "1.1.0-<version>", string(kv.v))
			}
			var err error
			label, err = strconv.ParseInt(parts[1], 10, 64)
			if err != nil {
				return viol("raw", i, op, "storage version label", "1.1.0-<version>", string(kv.v))
			}
		default:
			return viol("raw", i, op, "key spaces in use", "s, f, m", fmt.Sprintf("%x", kv.k))
		}
	}
	// Every retained version is decoded from its root entry by following the stored child links and compared
	// with the specification's tree: keys, values, heights, sizes, node versions, stored hashes. Which nonce
	// a node carries is not judged (only that links resolve); a root written with nonce 1 may be found under
	// nonce 0 after pruning re-keyed it, as the library's reader accepts.
	visited := map[model.NodeKey]bool{}
	get := func(nk model.NodeKey) (*rawNode, model.NodeKey) {
		if n := nodes[nk]; n != nil {
			return n, nk
		}
		if nk.ID == 1 {
			alt := model.NodeKey{Ver: nk.Ver, ID: 0}
			if n := nodes[alt]; n != nil {
				return n, alt
			}
		}
		return nil, nk
	}
	var walk func(nk model.NodeKey, t *model.Tree, ver int64) *Violation
	walk = func(nk model.NodeKey, t *model.Tree, ver int64) *Violation {
		n, at := get(nk)
		if n == nil {
			return viol("raw", i, op, fmt.Sprintf("version %d: node s(%d,%d) (key %x in the specification's tree) is stored", ver, nk.Ver, nk.ID, p.Key(t.K)), "present", "missing")
		}
		visited[at] = true
		if n.marker != "" {
			return viol("raw", i, op, fmt.Sprintf("version %d: s(%d,%d) is a node", ver, at.Ver, at.ID), "node", n.marker+" marker")
		}
		if at.Ver != t.Ver {
			return viol("raw", i, op, fmt.Sprintf("version %d: node version of the node with key %x", ver, p.Key(t.K)), t.Ver, at.Ver)
		}
		if t.IsLeaf() {
			if !n.leaf || n.sz != 1 || !bytes.Equal(n.key, p.Key(t.K)) || !bytes.Equal(n.val, p.Value(t.V)) {
				return viol("raw", i, op, fmt.Sprintf("version %d: s(%d,%d)", ver, at.Ver, at.ID), fmt.Sprintf("leaf %x=%x", p.Key(t.K), p.Value(t.V)), fmt.Sprintf("leaf=%v sz=%d %x=%x", n.leaf, n.sz, n.key, n.val))
			}
			return nil
		}
		if n.leaf || n.h != int64(t.H) || n.sz != t.Sz || !bytes.Equal(n.key, p.Key(t.K)) {
			return viol("raw", i, op, fmt.Sprintf("version %d: s(%d,%d)", ver, at.Ver, at.ID), fmt.Sprintf("inner h=%d sz=%d key=%x", t.H, t.Sz, p.Key(t.K)), fmt.Sprintf("leaf=%v h=%d sz=%d key=%x", n.leaf, n.h, n.sz, n.key))
		}
		if hw := e.h.Hash(t, 0); !bytes.Equal(hw, n.hash) {
			return viol("raw", i, op, fmt.Sprintf("version %d: hash stored in s(%d,%d)", ver, at.Ver, at.ID), hx(hw), hx(n.hash))
		}
		if v := walk(n.l, t.L, ver); v != nil {
			return v
		}
		return walk(n.r, t.R, ver)
	}
	for ver, t := range e.saved {
		rk := model.NodeKey{Ver: ver, ID: 1}
		root := nodes[rk]
		if root == nil {
			return viol("raw", i, op, fmt.Sprintf("root entry s(%d,1) of retained version %d", ver, ver), "present", "missing")
		}
		visited[rk] = true
		switch {
		case t == nil:
			if root.marker != "empty" {
				return viol("raw", i, op, fmt.Sprintf("s(%d,1) of the empty version %d", ver, ver), "empty-root marker", "something else")
			}
		case root.marker == "empty":
			return viol("raw", i, op, fmt.Sprintf("s(%d,1) of version %d", ver, ver), "a root", "empty-root marker")
		case root.marker == "ref":
			if v := walk(root.ref, t, ver); v != nil {
				return v
			}
		default:
			if v := walk(rk, t, ver); v != nil {
				return v
			}
		}
	}
	var leaks []string
	for nk := range nodes {
		if !visited[nk] {
			leaks = append(leaks, fmt.Sprintf("s(%d,%d)", nk.Ver, nk.ID))
		}
	}
	if len(leaks) > 0 {
		sort.Strings(leaks)
		return viol("raw", i, op, "stored entries that no retained version reaches (leak)", "none", strings.Join(leaks, " "))
	}
	e.obs(len(all))
	// the persisted index and its label
	wantFast := map[string]string{}
	for _, f := range ph.Fidx {
		wantFast[string(p.Key(f.K))] = fmt.Sprintf("%x@%d", p.Value(f.Val), f.Ver)
	}
	if label != ph.Label {
		return viol("rawidx", i, op, "storage version label (-1 = none)", ph.Label, label)
	}
	if fmt.Sprint(sortedMap(wantFast)) != fmt.Sprint(sortedMap(gotFast)) {
		return viol("rawidx", i, op, "persisted fast index entries (key=value@version)", sortedMap(wantFast), sortedMap(gotFast))
	}
	return nil
}

func sortedMap(m map[string]string) []string {
	var out []string
	for k, v := range m {
		out = append(out, fmt.Sprintf("%x=%s", k, v))
	}
	sort.Strings(out)
	return out
}

// sameRef: a child reference to a root node (nonce 1) is written as (ver, 0) if the child had already
// been re-keyed and reloaded when the parent was written; both forms resolve to the same node.
func sameRef(got, want model.NodeKey) bool {
	return got == want || (want.ID == 1 && got.ID == 0 && got.Ver == want.Ver)
}
