package exec

import (
	"bytes"
	"encoding/binary"
	"errors"
	"fmt"
	"sort"
	"strconv"
	"strings"

	"verif/harness/model"
)

// An independent decoder of the pinned on-disk format (it shares no code with the library):
//
//	key   's' ver(8, big endian) nonce(4, big endian)          node or root marker
//	value leaf : varint(0) varint(1) bytes(key) bytes(value)
//	      inner: varint(h) varint(size) bytes(key) bytes(hash, 32) varint(mode=0)
//	             varint(lver) varint(lnonce) varint(rver) varint(rnonce)
//	      root marker: "" (empty tree) | 's' ver(8) nonce(4) (reference)
//	key   'f' key          value varint(version) bytes(value)
//	key   'm' "storage_version"   value "1.1.0-<version>"
type rawNode struct {
	leaf     bool
	h        int64
	sz       int64
	key, val []byte
	hash     []byte
	l, r     model.NodeKey
	marker   string // "" | "empty" | "ref"
	ref      model.NodeKey
}

var errShort = errors.New("truncated")

func rdVarint(b []byte) (int64, []byte, error) {
	v, n := binary.Varint(b)
	if n <= 0 {
		return 0, nil, errShort
	}
	return v, b[n:], nil
}

func rdBytes(b []byte) ([]byte, []byte, error) {
	l, n := binary.Uvarint(b)
	if n <= 0 || uint64(len(b)-n) < l {
		return nil, nil, errShort
	}
	return b[n : n+int(l)], b[n+int(l):], nil
}

func decodeS(val []byte) (*rawNode, error) {
	if len(val) == 0 {
		return &rawNode{marker: "empty"}, nil
	}
	if val[0] == 's' {
		if len(val) != 13 {
			return nil, fmt.Errorf("reference root of length %d", len(val))
		}
		return &rawNode{marker: "ref", ref: model.NodeKey{Ver: int64(binary.BigEndian.Uint64(val[1:9])), ID: int64(binary.BigEndian.Uint32(val[9:13]))}}, nil
	}
	n := &rawNode{}
	var err error
	b := val
	if n.h, b, err = rdVarint(b); err != nil {
		return nil, err
	}
	if n.sz, b, err = rdVarint(b); err != nil {
		return nil, err
	}
	if n.key, b, err = rdBytes(b); err != nil {
		return nil, err
	}
	if n.h == 0 {
		n.leaf = true
		if n.val, b, err = rdBytes(b); err != nil {
			return nil, err
		}
	} else {
		if n.hash, b, err = rdBytes(b); err != nil {
			return nil, err
		}
		var mode int64
		if mode, b, err = rdVarint(b); err != nil {
			return nil, err
		}
		if mode != 0 {
			return nil, fmt.Errorf("mode %d in a store without legacy nodes", mode)
		}
		if n.l.Ver, b, err = rdVarint(b); err != nil {
			return nil, err
		}
		if n.l.ID, b, err = rdVarint(b); err != nil {
			return nil, err
		}
		if n.r.Ver, b, err = rdVarint(b); err != nil {
			return nil, err
		}
		if n.r.ID, b, err = rdVarint(b); err != nil {
			return nil, err
		}
	}
	if len(b) != 0 {
		return nil, fmt.Errorf("%d trailing bytes", len(b))
	}
	return n, nil
}

// SweepRaw: C12 / C13 (library writes, independent decoder reads) / C07 (raw index).
func (e *Executor) SweepRaw(i int, op string) *Violation {
	ph := e.curPhys
	itr, err := e.db.Iterator(nil, nil)
	if err != nil {
		panic(err)
	}
	type ent struct{ k, v []byte }
	var all []ent
	for ; itr.Valid(); itr.Next() {
		all = append(all, ent{append([]byte(nil), itr.Key()...), append([]byte{}, itr.Value()...)})
	}
	itr.Close()
	// spec nodes by identity, to check stored hashes
	byID := map[model.NodeKey]*model.Tree{}
	for _, t := range e.saved {
		for _, n := range t.AllNodes() {
			byID[model.NodeKey{Ver: n.Ver, ID: n.ID}] = n
		}
	}
	want := map[model.NodeKey]model.DiskEntry{}
	for _, d := range ph.Disk {
		want[d.Key] = d
	}
	p := e.Cfg.Pal
	seen := map[model.NodeKey]bool{}
	gotFast := map[string]string{}
	label := int64(-1)
	for _, kv := range all {
		switch kv.k[0] {
		case 's':
			if len(kv.k) != 13 {
				return viol("raw", i, op, fmt.Sprintf("node key %x", kv.k), "13 bytes", len(kv.k))
			}
			nk := model.NodeKey{Ver: int64(binary.BigEndian.Uint64(kv.k[1:9])), ID: int64(binary.BigEndian.Uint32(kv.k[9:13]))}
			seen[nk] = true
			w, ok := want[nk]
			if !ok {
				return viol("raw", i, op, fmt.Sprintf("stored entry s(%d,%d) is not reachable from any retained version (leak)", nk.Ver, nk.ID), "absent", fmt.Sprintf("%x", kv.v))
			}
			n, err := decodeS(kv.v)
			if err != nil {
				return viol("raw", i, op, fmt.Sprintf("entry s(%d,%d) decodes with the pinned format", nk.Ver, nk.ID), "ok", err)
			}
			switch w.Kind {
			case "empty":
				if n.marker != "empty" {
					return viol("raw", i, op, fmt.Sprintf("s(%d,%d)", nk.Ver, nk.ID), "empty-root marker", fmt.Sprintf("%x", kv.v))
				}
			case "ref":
				// a referenced root with nonce 1 may have been re-keyed to nonce 0 before or after the reference was written
				if n.marker != "ref" || n.ref.Ver != w.TVer || !(n.ref.ID == w.TID || (w.TID <= 1 && n.ref.ID <= 1)) {
					return viol("raw", i, op, fmt.Sprintf("s(%d,%d)", nk.Ver, nk.ID), fmt.Sprintf("reference to node (%d,%d)", w.TVer, w.TID), fmt.Sprintf("%x", kv.v))
				}
			case "leaf":
				if n.marker != "" || !n.leaf || n.sz != 1 || !bytes.Equal(n.key, p.Key(w.K)) || !bytes.Equal(n.val, p.Value(w.V)) {
					return viol("raw", i, op, fmt.Sprintf("s(%d,%d)", nk.Ver, nk.ID), fmt.Sprintf("leaf %x=%x", p.Key(w.K), p.Value(w.V)), fmt.Sprintf("%x", kv.v))
				}
			case "inner":
				if n.marker != "" || n.leaf || n.h != int64(w.H) || n.sz != w.Sz || !bytes.Equal(n.key, p.Key(w.K)) || !sameRef(n.l, w.L) || !sameRef(n.r, w.R) {
					return viol("raw", i, op, fmt.Sprintf("s(%d,%d)", nk.Ver, nk.ID),
						fmt.Sprintf("inner h=%d sz=%d key=%x l=%v r=%v", w.H, w.Sz, p.Key(w.K), w.L, w.R),
						fmt.Sprintf("h=%d sz=%d key=%x l=%v r=%v marker=%q", n.h, n.sz, n.key, n.l, n.r, n.marker))
				}
				// the stored hash is the hash of the subtree
				sn := byID[nk]
				if sn == nil && nk.ID == 0 {
					sn = byID[model.NodeKey{Ver: nk.Ver, ID: 1}]
				}
				if sn == nil {
					return viol("raw", i, op, fmt.Sprintf("s(%d,%d)", nk.Ver, nk.ID), "a node of a retained tree", "no such node in the specification state")
				}
				{
					if hw := e.h.Hash(sn, 0); !bytes.Equal(hw, n.hash) {
						return viol("raw", i, op, fmt.Sprintf("hash stored in s(%d,%d)", nk.Ver, nk.ID), hx(hw), hx(n.hash))
					}
				}
			}
		case 'f':
			ver, rest, err := rdVarint(kv.v)
			if err != nil {
				return viol("raw", i, op, fmt.Sprintf("fast entry %x decodes", kv.k), "ok", err)
			}
			val, rest, err := rdBytes(rest)
			if err != nil || len(rest) != 0 {
				return viol("raw", i, op, fmt.Sprintf("fast entry %x decodes", kv.k), "ok", fmt.Sprint(err, " trailing ", len(rest)))
			}
			gotFast[string(kv.k[1:])] = fmt.Sprintf("%x@%d", val, ver)
		case 'm':
			if string(kv.k[1:]) != "storage_version" {
				return viol("raw", i, op, "metadata keys", "only storage_version", string(kv.k))
			}
			parts := strings.Split(string(kv.v), "-")
			if len(parts) != 2 || parts[0] != "1.1.0" {
				return viol("raw", i, op, "storage version label", "1.1.0-<version>", string(kv.v))
			}
			label, err = strconv.ParseInt(parts[1], 10, 64)
			if err != nil {
				return viol("raw", i, op, "storage version label", "1.1.0-<version>", string(kv.v))
			}
		default:
			return viol("raw", i, op, "key spaces in use", "s, f, m", fmt.Sprintf("%x", kv.k))
		}
	}
	var missing []string
	for nk := range want {
		if !seen[nk] {
			missing = append(missing, fmt.Sprintf("s(%d,%d)", nk.Ver, nk.ID))
		}
	}
	if len(missing) > 0 {
		sort.Strings(missing)
		return viol("raw", i, op, "entries a retained version needs are stored", "present", "missing "+strings.Join(missing, " "))
	}
	e.obs(len(all))
	// the persisted index and its label
	wantFast := map[string]string{}
	for _, f := range ph.Fidx {
		wantFast[string(p.Key(f.K))] = fmt.Sprintf("%x@%d", p.Value(f.Val), f.Ver)
	}
	if label != ph.Label {
		return viol("rawidx", i, op, "storage version label (-1 = none)", ph.Label, label)
	}
	if fmt.Sprint(sortedMap(wantFast)) != fmt.Sprint(sortedMap(gotFast)) {
		return viol("rawidx", i, op, "persisted fast index entries (key=value@version)", sortedMap(wantFast), sortedMap(gotFast))
	}
	return nil
}

func sortedMap(m map[string]string) []string {
	var out []string
	for k, v := range m {
		out = append(out, fmt.Sprintf("%x=%s", k, v))
	}
	sort.Strings(out)
	return out
}

// sameRef: a child reference to a root node (nonce 1) is written as (ver, 0) if the child had already
// been re-keyed and reloaded when the parent was written; both forms resolve to the same node.
func sameRef(got, want model.NodeKey) bool {
	return got == want || (want.ID == 1 && got.ID == 0 && got.Ver == want.Ver)
}
