package exec

import (
	"encoding/hex"
	"encoding/json"
	"fmt"
	"os"
	osexec "os/exec"
	"path/filepath"

	dbm "github.com/cosmos/iavl/db"

	"verif/harness/model"
)

type legacyOp struct {
	Op string `json:"op"`
	K  string `json:"k,omitempty"`
	V  string `json:"v,omitempty"`
	N  int64  `json:"n,omitempty"`
}

type legacyRec struct {
	Ver   int64       `json:"ver"`
	Hash  string      `json:"hash"`
	Pairs [][2]string `json:"pairs"`
}

// migrate lets the LEGACY library (iavl v0.20.0, /verif/legacygen) execute the legacy phase into a
// GoLevelDB directory, checks the three-way agreement legacy hash = SHA-256 over the spec tree (the
// new library's hash is checked by the sweeps), and opens the directory with the new library.
func (e *Executor) migrate(i int, s *model.Step, b *model.Behaviour) *Violation {
	bin := os.Getenv("VERIF_LEGACYGEN")
	if bin == "" {
		panic("VERIF_LEGACYGEN is not set")
	}
	p := e.Cfg.Pal
	job := struct {
		Fast bool       `json:"fast"`
		Ops  []legacyOp `json:"ops"`
	}{Fast: e.Seed%2 == 0}
	for _, st := range b.Steps[:i] {
		switch st.Op {
		case "set":
			job.Ops = append(job.Ops, legacyOp{Op: "set", K: hex.EncodeToString(p.Key(st.Args.K)), V: hex.EncodeToString(p.Value(st.Args.V))})
		case "rm":
			job.Ops = append(job.Ops, legacyOp{Op: "rm", K: hex.EncodeToString(p.Key(st.Args.K))})
		case "save":
			job.Ops = append(job.Ops, legacyOp{Op: "save"})
		}
	}
	// legacy-side deletion of the oldest versions (leaves orphan records in the legacy format)
	for v := int64(1); v <= s.Args.N; v++ {
		job.Ops = append(job.Ops, legacyOp{Op: "delversion", N: v})
	}
	dir, err := os.MkdirTemp("", "vlegacy")
	if err != nil {
		panic(err)
	}
	e.dir = dir
	jb, _ := json.Marshal(job)
	jobFile, recFile := filepath.Join(dir, "job.json"), filepath.Join(dir, "rec.json")
	if err := os.WriteFile(jobFile, jb, 0o644); err != nil {
		panic(err)
	}
	dbdir := filepath.Join(dir, "db")
	if out, err := osexec.Command(bin, dbdir, jobFile, recFile).CombinedOutput(); err != nil {
		panic(fmt.Sprintf("legacygen failed: %v\n%s", err, out))
	}
	rb, err := os.ReadFile(recFile)
	if err != nil {
		panic(err)
	}
	var recs []legacyRec
	if err := json.Unmarshal(rb, &recs); err != nil {
		panic(err)
	}
	// adopt the specification's state after the migration (the deleted prefix is gone)
	for v := range e.saved {
		if v < s.First || v > s.Latest {
			delete(e.saved, v)
		}
	}
	if len(recs) != len(e.saved) {
		return viol("legacy", i, s.Op, "versions the legacy library kept", len(e.saved), len(recs))
	}
	for _, r := range recs {
		t, ok := e.saved[r.Ver]
		if !ok {
			return viol("legacy", i, s.Op, fmt.Sprintf("legacy library kept version %d", r.Ver), "deleted", "present")
		}
		want := hex.EncodeToString(e.h.Hash(t, r.Ver+1))
		if want != r.Hash {
			return viol("legacy", i, s.Op, fmt.Sprintf("root hash the legacy library reported for version %d vs SHA-256 over the specification's tree", r.Ver), want, r.Hash)
		}
		var exp [][2]string
		for _, l := range t.Leaves() {
			exp = append(exp, [2]string{hex.EncodeToString(p.Key(l.K)), hex.EncodeToString(p.Value(l.V))})
		}
		if fmt.Sprint(exp) != fmt.Sprint(r.Pairs) && !(len(exp) == 0 && len(r.Pairs) == 0) {
			return viol("legacy", i, s.Op, fmt.Sprintf("contents the legacy library reported for version %d", r.Ver), exp, r.Pairs)
		}
	}
	ldb, err := dbm.NewGoLevelDB("test", dbdir)
	if err != nil {
		panic(err)
	}
	e.base, e.db = ldb, ldb
	v, err := e.open(s.Args.Fast)
	if err != nil || v != s.Ret.Ver {
		return viol("legacy", i, s.Op, "Load() of the legacy database with the new library", fmt.Sprint(s.Ret.Ver, ",ok"), fmt.Sprint(v, ",", err))
	}
	return nil
}
