package exec

import (
	"bytes"
	"fmt"
	"math/rand"

	"github.com/cosmos/iavl"
	ics23 "github.com/cosmos/ics23/go"

	"verif/harness/model"
)

type kv struct{ k, v []byte }

// expected contents of a spec tree as sorted byte pairs (projection of the leaves TLC printed)
func (e *Executor) pairs(t *model.Tree) []kv {
	var out []kv
	for _, l := range t.Leaves() {
		out = append(out, kv{e.Cfg.Pal.Key(l.K), e.Cfg.Pal.Value(l.V)})
	}
	return out
}

func hx(b []byte) string {
	if b == nil {
		return "nil"
	}
	return fmt.Sprintf("%x", b)
}

// reader is the read API shared by MutableTree (working state) and ImmutableTree.
type reader interface {
	Get(key []byte) ([]byte, error)
	Has(key []byte) (bool, error)
	GetWithIndex(key []byte) (int64, []byte, error)
	GetByIndex(index int64) ([]byte, []byte, error)
	Size() int64
	Height() int8
	Iterate(fn func(key, value []byte) bool) (bool, error)
}

// checkReads compares every read API of r with the expected sorted contents.
func (e *Executor) checkReads(i int, op, what string, r reader, t *model.Tree) *Violation {
	want := e.pairs(t)
	p := e.Cfg.Pal
	for pos := 0; pos < p.NPos(); pos++ {
		key := p.Pos(pos)
		var wv []byte
		rank := int64(0)
		found := false
		for _, w := range want {
			c := bytes.Compare(w.k, key)
			if c < 0 {
				rank++
			} else if c == 0 {
				wv, found = w.v, true
			}
		}
		got, err := r.Get(key)
		if err != nil || !bytes.Equal(got, wv) || (got == nil) != !found {
			v := viol("reads", i, op, fmt.Sprintf("%s Get(%x)", what, key), hx(wv), fmt.Sprint(hx(got), ",", err))
			if err != nil || !e.staleIndex() {
				return v
			}
			e.known("F-C07a", v)
		}
		has, err := r.Has(key)
		if err != nil || has != found {
			return viol("reads", i, op, fmt.Sprintf("%s Has(%x)", what, key), found, fmt.Sprint(has, ",", err))
		}
		idx, val, err := r.GetWithIndex(key)
		if err != nil || idx != rank || !bytes.Equal(val, wv) || (val == nil) != !found {
			return viol("reads", i, op, fmt.Sprintf("%s GetWithIndex(%x)", what, key), fmt.Sprint(rank, ",", hx(wv)), fmt.Sprint(idx, ",", hx(val), ",", err))
		}
		e.obs(3)
	}
	n := int64(len(want))
	for idx := int64(-1); idx <= n+1; idx++ {
		k, v, err := r.GetByIndex(idx)
		if idx >= 0 && idx < n {
			if err != nil || !bytes.Equal(k, want[idx].k) || !bytes.Equal(v, want[idx].v) || v == nil {
				return viol("reads", i, op, fmt.Sprintf("%s GetByIndex(%d)", what, idx), fmt.Sprint(hx(want[idx].k), "=", hx(want[idx].v)), fmt.Sprint(hx(k), "=", hx(v), ",", err))
			}
		} else if err != nil || k != nil || v != nil {
			return viol("reads", i, op, fmt.Sprintf("%s GetByIndex(%d) out of range", what, idx), "nil,nil", fmt.Sprint(hx(k), "=", hx(v), ",", err))
		}
		e.obs(1)
	}
	if r.Size() != n {
		return viol("reads", i, op, what+" Size()", n, r.Size())
	}
	var got []kv
	stopped, err := r.Iterate(func(k, v []byte) bool {
		got = append(got, kv{append([]byte(nil), k...), append([]byte(nil), v...)})
		return false
	})
	if err != nil || stopped {
		return viol("reads", i, op, what+" Iterate result", "false,nil", fmt.Sprint(stopped, ",", err))
	}
	if msg := diffPairs(want, got); msg != "" {
		v := viol("reads", i, op, what+" Iterate sequence", fmtPairs(want), fmtPairs(got))
		if !e.staleIndex() {
			return v
		}
		e.known("F-C07a", v)
	}
	e.obs(2)
	return nil
}

func diffPairs(a, b []kv) string {
	if len(a) != len(b) {
		return "length"
	}
	for i := range a {
		if !bytes.Equal(a[i].k, b[i].k) || !bytes.Equal(a[i].v, b[i].v) {
			return fmt.Sprintf("index %d", i)
		}
	}
	return ""
}

func fmtPairs(a []kv) string {
	var sb bytes.Buffer
	for _, p := range a {
		fmt.Fprintf(&sb, "%x=%x ", p.k, p.v)
	}
	return sb.String()
}

// sweepReads: C01 - the working tree and every retained version against the versioned map.
func (e *Executor) sweepReads(i int, op string) *Violation {
	if v := e.checkReads(i, op, "working", e.tree, e.work); v != nil {
		if !e.workTainted {
			return v
		}
		e.known("F-C16-1", v)
	}
	if (e.work == nil) != e.tree.IsEmpty() && !e.workTainted {
		return viol("reads", i, op, "IsEmpty", e.work == nil, e.tree.IsEmpty())
	}
	p := e.Cfg.Pal
	for _, ver := range e.sortedVersions() {
		t := e.saved[ver]
		it, err := e.tree.GetImmutable(ver)
		if err != nil {
			return viol("reads", i, op, fmt.Sprintf("GetImmutable(%d) of a retained version", ver), "ok", err)
		}
		if it.Version() != ver {
			return viol("reads", i, op, fmt.Sprintf("GetImmutable(%d).Version()", ver), ver, it.Version())
		}
		if v := e.checkReads(i, op, fmt.Sprintf("version %d", ver), it, t); v != nil {
			if e.legacyCollision(ver) {
				e.known("F-C16-1", v)
				continue
			}
			return v
		}
		if e.legacyCollision(ver) {
			continue
		}
		for pos := 0; pos < p.NPos(); pos++ {
			key := p.Pos(pos)
			var wv []byte
			for _, l := range t.Leaves() {
				if bytes.Equal(p.Key(l.K), key) {
					wv = p.Value(l.V)
				}
			}
			got, err := e.tree.GetVersioned(key, ver)
			if err != nil || !bytes.Equal(got, wv) || (got == nil) != (wv == nil) {
				v := viol("reads", i, op, fmt.Sprintf("GetVersioned(%x, %d)", key, ver), hx(wv), fmt.Sprint(hx(got), ",", err))
				if err != nil || !e.staleIndex() {
					return v
				}
				e.known("F-C07a", v)
			}
			e.obs(1)
		}
	}
	return nil
}

// sweepHash: C02 - working hash, last saved hash and the hash of every retained version equal
// SHA-256 over the specification's tree.
func (e *Executor) sweepHash(i int, op string) *Violation {
	want := e.h.Hash(e.work, e.tgt)
	if got := e.tree.WorkingHash(); !bytes.Equal(got, want) {
		v := viol("hash", i, op, "WorkingHash()", hx(want), hx(got))
		if !e.workTainted {
			return v
		}
		e.known("F-C16-1", v)
	}
	var last *model.Tree
	if e.ver != 0 {
		last = e.saved[e.ver]
	}
	// Hash() is the hash of the last saved version of this handle
	if e.ver == 0 || last != nil || e.saved[e.ver] == nil {
		want = e.h.Hash(last, e.ver+1)
		if got := e.tree.Hash(); !bytes.Equal(got, want) {
			v := viol("hash", i, op, "Hash() of the last saved version", hx(want), hx(got))
			if !e.workTainted {
				return v
			}
			e.known("F-C16-1", v)
		}
	}
	e.obs(2)
	for _, ver := range e.sortedVersions() {
		it, err := e.tree.GetImmutable(ver)
		if err != nil {
			return viol("hash", i, op, fmt.Sprintf("GetImmutable(%d) of a retained version", ver), "ok", err)
		}
		want := e.h.Hash(e.saved[ver], ver+1)
		if got := it.Hash(); !bytes.Equal(got, want) {
			v := viol("hash", i, op, fmt.Sprintf("GetImmutable(%d).Hash()", ver), hx(want), hx(got))
			if e.legacyCollision(ver) {
				e.known("F-C16-1", v)
				continue
			}
			return v
		}
		e.obs(1)
	}
	return nil
}

// readNoise performs read-only calls without judging their results: the specification has no
// action for them, so they must not influence anything observed later.
func (e *Executor) readNoise(i int) {
	rng := rand.New(rand.NewSource(e.Seed*7919 + int64(i)))
	p := e.Cfg.Pal
	for n := 0; n < 4; n++ {
		key := p.Pos(rng.Intn(p.NPos()))
		switch rng.Intn(9) {
		case 0:
			_, _ = e.tree.Get(key)
		case 1:
			_, _, _ = e.tree.GetWithIndex(key)
		case 2:
			_, _ = e.tree.Has(key)
		case 3:
			_, _ = e.tree.Iterate(func(k, v []byte) bool { return rng.Intn(4) == 0 })
		case 4:
			if !e.tree.IsEmpty() {
				_, _ = e.tree.ImmutableTree.GetProof(key)
			}
		case 5:
			_ = e.tree.WorkingHash()
		case 6:
			_ = e.tree.Hash()
		case 7:
			if e.latest > 0 {
				ver := e.first + rng.Int63n(e.latest-e.first+1)
				if it, err := e.tree.GetImmutable(ver); err == nil {
					_ = it.Hash()
					_, _ = it.Get(key)
					if it.Size() > 0 {
						_, _ = it.GetProof(key)
					}
				}
			}
		case 8:
			itr, err := e.tree.Iterator(nil, nil, rng.Intn(2) == 0)
			if err == nil {
				for ; itr.Valid(); itr.Next() {
				}
				itr.Close()
			}
		}
		e.obs(1)
	}
}

// sweepVersions: C14 - every version query agrees with the contiguous range first..latest.
func (e *Executor) sweepVersions(i int, op string) *Violation {
	lv, err := e.tree.GetLatestVersion()
	if err != nil || lv != e.latest {
		return viol("versions", i, op, "GetLatestVersion()", e.latest, fmt.Sprint(lv, ",", err))
	}
	av := e.tree.AvailableVersions()
	var want []int
	if e.latest > 0 {
		for v := e.first; v <= e.latest; v++ {
			want = append(want, int(v))
		}
	}
	if fmt.Sprint(av) != fmt.Sprint(want) && !(len(av) == 0 && len(want) == 0) {
		return viol("versions", i, op, "AvailableVersions()", want, av)
	}
	if e.tree.Version() != e.ver {
		return viol("versions", i, op, "Version() of the handle", e.ver, e.tree.Version())
	}
	if e.tree.WorkingVersion() != e.tgt {
		return viol("versions", i, op, "WorkingVersion()", e.tgt, e.tree.WorkingVersion())
	}
	e.obs(4)
	lo := e.first - 2
	if lo < 0 {
		lo = 0
	}
	somekey := e.Cfg.Pal.Key(1)
	for v := lo; v <= e.latest+2; v++ {
		in := e.latest > 0 && v >= e.first && v <= e.latest
		if got := e.tree.VersionExists(v); got != in {
			return viol("versions", i, op, fmt.Sprintf("VersionExists(%d)", v), in, got)
		}
		_, err := e.tree.GetImmutable(v)
		if (err == nil) != in {
			return viol("versions", i, op, fmt.Sprintf("GetImmutable(%d)", v), expErr(!in), fmt.Sprint(err))
		}
		if !in {
			val, err := e.tree.GetVersioned(somekey, v)
			if val != nil || err != nil {
				return viol("versions", i, op, fmt.Sprintf("GetVersioned(k, %d) outside the range", v), "nil,nil", fmt.Sprint(hx(val), ",", err))
			}
		}
		e.obs(3)
	}
	// a throw-away handle (index off: opening it writes nothing) must load exactly the retained versions
	for v := lo; v <= e.latest+1; v++ {
		if v == 0 {
			continue
		}
		in := e.latest > 0 && v >= e.first && v <= e.latest
		h := iavl.NewMutableTree(e.db, 0, true, logger, e.opts()...)
		got, err := h.LoadVersion(v)
		if (err == nil) != in {
			return viol("versions", i, op, fmt.Sprintf("LoadVersion(%d) on a fresh handle", v), expErr(!in), fmt.Sprint(err))
		}
		if err == nil && (got != e.latest || h.Version() != v) {
			return viol("versions", i, op, fmt.Sprintf("LoadVersion(%d) on a fresh handle: (latest, loaded)", v), fmt.Sprint(e.latest, ",", v), fmt.Sprint(got, ",", h.Version()))
		}
		if err != nil {
			// the handle stays usable
			if _, err2 := h.Load(); err2 != nil {
				return viol("versions", i, op, fmt.Sprintf("Load() after a failed LoadVersion(%d)", v), "ok", err2)
			}
		}
		_ = h.Close()
		e.obs(1)
	}
	return nil
}

// sweepProofs: C03.
func (e *Executor) sweepProofs(i int, op string) *Violation {
	// the working tree (root = working hash) and every retained version
	if e.work != nil && !e.workTainted {
		root := e.h.Hash(e.work, e.tgt)
		if v := e.checkProofs(i, op, "working", e.tree.ImmutableTree, e.work, root, 0); v != nil {
			return v
		}
	}
	for _, ver := range e.sortedVersions() {
		t := e.saved[ver]
		if t == nil {
			continue
		}
		it, err := e.tree.GetImmutable(ver)
		if err != nil {
			return viol("proof", i, op, fmt.Sprintf("GetImmutable(%d)", ver), "ok", err)
		}
		root := e.h.Hash(t, ver+1)
		if v := e.checkProofs(i, op, fmt.Sprintf("version %d", ver), it, t, root, ver); v != nil {
			if e.legacyCollision(ver) {
				e.known("F-C16-1", v)
				continue
			}
			return v
		}
	}
	return nil
}

func (e *Executor) checkProofs(i int, op, what string, it *iavl.ImmutableTree, t *model.Tree, root []byte, ver int64) *Violation {
	p := e.Cfg.Pal
	leaves := t.Leaves()
	for pos := 0; pos < p.NPos(); pos++ {
		key := p.Pos(pos)
		var wv []byte
		var left, right []byte // neighbours
		for _, l := range leaves {
			lk := p.Key(l.K)
			c := bytes.Compare(lk, key)
			if c == 0 {
				wv = p.Value(l.V)
			} else if c < 0 {
				left = lk
			} else if right == nil {
				right = lk
			}
		}
		present := wv != nil
		proof, err := it.GetProof(key)
		if err != nil || proof == nil {
			return viol("proof", i, op, fmt.Sprintf("%s GetProof(%x)", what, key), "a proof", fmt.Sprint(err))
		}
		e.obs(1)
		if present {
			ex := proof.GetExist()
			if ex == nil {
				return viol("proof", i, op, fmt.Sprintf("%s GetProof(%x) kind", what, key), "membership", "non-membership")
			}
			if !bytes.Equal(ex.Key, key) || !bytes.Equal(ex.Value, wv) {
				return viol("proof", i, op, fmt.Sprintf("%s GetProof(%x) key/value", what, key), fmt.Sprint(hx(key), "=", hx(wv)), fmt.Sprint(hx(ex.Key), "=", hx(ex.Value)))
			}
			if !ics23.VerifyMembership(ics23.IavlSpec, root, proof, key, wv) {
				return viol("proof", i, op, fmt.Sprintf("%s membership proof of %x verifies against the version's root", what, key), true, false)
			}
			// must not verify for anything else
			if ics23.VerifyMembership(ics23.IavlSpec, root, proof, key, append(append([]byte(nil), wv...), 'x')) {
				return viol("proof", i, op, fmt.Sprintf("%s membership proof of %x verifies for another value", what, key), false, true)
			}
			other := p.Pos((pos + 1) % p.NPos())
			if ics23.VerifyMembership(ics23.IavlSpec, root, proof, other, wv) {
				return viol("proof", i, op, fmt.Sprintf("%s membership proof of %x verifies for another key", what, key), false, true)
			}
			if ics23.VerifyNonMembership(ics23.IavlSpec, root, proof, key) {
				return viol("proof", i, op, fmt.Sprintf("%s membership proof of %x verifies as non-membership", what, key), false, true)
			}
			// roots of versions in which the claim is false
			for _, ov := range e.sortedVersions() {
				ot := e.saved[ov]
				if ot == nil || ov == ver {
					continue
				}
				same := false
				for _, l := range ot.Leaves() {
					if bytes.Equal(p.Key(l.K), key) && bytes.Equal(p.Value(l.V), wv) {
						same = true
					}
				}
				if !same && ics23.VerifyMembership(ics23.IavlSpec, e.h.Hash(ot, ov+1), proof, key, wv) {
					return viol("proof", i, op, fmt.Sprintf("%s membership proof of %x verifies against version %d where the claim is false", what, key, ov), false, true)
				}
			}
			if mp, err := it.GetMembershipProof(key); err != nil || !ics23.VerifyMembership(ics23.IavlSpec, root, mp, key, wv) {
				return viol("proof", i, op, fmt.Sprintf("%s GetMembershipProof(%x)", what, key), "verifying proof", fmt.Sprint(err))
			}
			if np, err := it.GetNonMembershipProof(key); err == nil {
				return viol("proof", i, op, fmt.Sprintf("%s GetNonMembershipProof(%x) of a present key", what, key), "error", fmt.Sprint(np != nil))
			}
			e.obs(6)
		} else {
			ne := proof.GetNonexist()
			if ne == nil {
				return viol("proof", i, op, fmt.Sprintf("%s GetProof(%x) kind", what, key), "non-membership", "membership")
			}
			var gl, gr []byte
			if ne.Left != nil {
				gl = ne.Left.Key
			}
			if ne.Right != nil {
				gr = ne.Right.Key
			}
			if !bytes.Equal(gl, left) || !bytes.Equal(gr, right) || !bytes.Equal(ne.Key, key) {
				return viol("proof", i, op, fmt.Sprintf("%s non-membership proof of %x: bracketing keys", what, key), fmt.Sprint(hx(left), "..", hx(right)), fmt.Sprint(hx(gl), "..", hx(gr)))
			}
			if !ics23.VerifyNonMembership(ics23.IavlSpec, root, proof, key) {
				return viol("proof", i, op, fmt.Sprintf("%s non-membership proof of %x verifies against the version's root", what, key), true, false)
			}
			if ics23.VerifyMembership(ics23.IavlSpec, root, proof, key, []byte{}) {
				return viol("proof", i, op, fmt.Sprintf("%s non-membership proof of %x verifies as membership", what, key), false, true)
			}
			// not for a present key
			if left != nil && ics23.VerifyNonMembership(ics23.IavlSpec, root, proof, left) {
				return viol("proof", i, op, fmt.Sprintf("%s non-membership proof of %x verifies for the present key %x", what, key, left), false, true)
			}
			for _, ov := range e.sortedVersions() {
				ot := e.saved[ov]
				if ot == nil || ov == ver {
					continue
				}
				has := false
				for _, l := range ot.Leaves() {
					if bytes.Equal(p.Key(l.K), key) {
						has = true
					}
				}
				if has && ics23.VerifyNonMembership(ics23.IavlSpec, e.h.Hash(ot, ov+1), proof, key) {
					return viol("proof", i, op, fmt.Sprintf("%s non-membership proof of %x verifies against version %d which contains the key", what, key, ov), false, true)
				}
			}
			if np, err := it.GetNonMembershipProof(key); err != nil || !ics23.VerifyNonMembership(ics23.IavlSpec, root, np, key) {
				return viol("proof", i, op, fmt.Sprintf("%s GetNonMembershipProof(%x)", what, key), "verifying proof", fmt.Sprint(err))
			}
			if mp, err := it.GetMembershipProof(key); err == nil {
				return viol("proof", i, op, fmt.Sprintf("%s GetMembershipProof(%x) of an absent key", what, key), "error", fmt.Sprint(mp != nil))
			}
			e.obs(5)
		}
		if ver != 0 {
			vp, err := e.tree.GetVersionedProof(key, ver)
			if err != nil || vp == nil {
				return viol("proof", i, op, fmt.Sprintf("GetVersionedProof(%x, %d)", key, ver), "a proof", fmt.Sprint(err))
			}
			ok := false
			if present {
				ok = ics23.VerifyMembership(ics23.IavlSpec, root, vp, key, wv)
			} else {
				ok = ics23.VerifyNonMembership(ics23.IavlSpec, root, vp, key)
			}
			if !ok {
				return viol("proof", i, op, fmt.Sprintf("GetVersionedProof(%x, %d) verifies against the version's root", key, ver), true, false)
			}
			e.obs(1)
		}
	}
	return nil
}
