package exec

import (
	"sync"

	corestore "cosmossdk.io/core/store"
)

// GateDB is a storage wrapper for schedule replay at the granularity of storage reads: once armed
// with j, the j-th Get issued afterwards blocks inside the storage call until Release. The harness
// arms it, starts one reader alone, waits until the reader is parked (or has finished), lets the
// writer run a whole operation, and releases the reader. No assumption about the library's locks is
// made: if the library holds a lock across that read, the writer simply cannot proceed and the
// harness releases the reader after a bounded wait.
type GateDB struct {
	corestore.KVStoreWithBatch
	mu      sync.Mutex
	armed   bool
	n       int // Gets to let through before parking
	Parked  chan []byte
	release chan struct{}
	Gets    int // Gets seen while armed (bookkeeping)
	// After: the read is performed first and its (then possibly outdated) answer is delivered after the
	// release; otherwise the read itself happens after the release
	After bool
}

func NewGateDB(inner corestore.KVStoreWithBatch) *GateDB {
	return &GateDB{KVStoreWithBatch: inner}
}

// Arm parks the j-th (0-based) Get from now on, before (after = false) or after the read is performed.
func (g *GateDB) Arm(j int, after bool) {
	g.mu.Lock()
	defer g.mu.Unlock()
	g.armed, g.n, g.Gets, g.After = true, j, 0, after
	g.Parked = make(chan []byte, 1)
	g.release = make(chan struct{})
}

// Disarm cancels a pending park (the reader finished before reaching it).
func (g *GateDB) Disarm() {
	g.mu.Lock()
	defer g.mu.Unlock()
	g.armed = false
}

// Release lets the parked reader continue.
func (g *GateDB) Release() { close(g.release) }

func (g *GateDB) Get(key []byte) ([]byte, error) {
	g.mu.Lock()
	park := false
	if g.armed {
		g.Gets++
		if g.n == 0 {
			park, g.armed = true, false
		} else {
			g.n--
		}
	}
	rel := g.release
	parked := g.Parked
	after := g.After
	g.mu.Unlock()
	if park && after {
		v, err := g.KVStoreWithBatch.Get(key)
		parked <- append([]byte(nil), key...)
		<-rel
		return v, err
	}
	if park {
		parked <- append([]byte(nil), key...)
		<-rel
	}
	return g.KVStoreWithBatch.Get(key)
}
