package exec

import (
	"bytes"
	"errors"
	"fmt"
	"math/rand"

	"github.com/cosmos/iavl"
	dbm "github.com/cosmos/iavl/db"
	ics23 "github.com/cosmos/ics23/go"

	"verif/harness/model"
)

// postOrder is the export order of the specification (ExportSeq of IAVLTree.tla, which TLC checks
// to be the post-order of the tree: T7a).
func postOrder(t *model.Tree) []*model.Tree {
	if t == nil {
		return nil
	}
	if t.IsLeaf() {
		return []*model.Tree{t}
	}
	out := append(postOrder(t.L), postOrder(t.R)...)
	return append(out, t)
}

// SweepExport: C10 fidelity - export every retained version (plain and compressed), compare the
// stream with the specification's post-order, import it into an empty store and compare the result.
func (e *Executor) SweepExport(i int, op string) *Violation {
	rng := rand.New(rand.NewSource(e.Seed*131 + int64(i)))
	vs := e.sortedVersions()
	if len(vs) > 4 {
		pick := []int64{vs[0], vs[len(vs)-1], vs[rng.Intn(len(vs))], vs[rng.Intn(len(vs))]}
		vs = pick
	}
	p := e.Cfg.Pal
	for _, ver := range vs {
		t := e.saved[ver]
		it, err := e.tree.GetImmutable(ver)
		if err != nil {
			return viol("export", i, op, fmt.Sprintf("GetImmutable(%d)", ver), "ok", err)
		}
		want := postOrder(t)
		for _, compress := range []bool{false, true} {
			exp, err := it.Export()
			if err != nil {
				return viol("export", i, op, fmt.Sprintf("Export of version %d", ver), "ok", err)
			}
			var src iavl.NodeExporter = exp
			if compress {
				src = iavl.NewCompressExporter(exp)
			}
			var nodes []*iavl.ExportNode
			for {
				n, err := src.Next()
				if errors.Is(err, iavl.ErrorExportDone) {
					break
				}
				if err != nil {
					exp.Close()
					return viol("export", i, op, fmt.Sprintf("Exporter.Next of version %d", ver), "ok", err)
				}
				nodes = append(nodes, n)
			}
			exp.Close()
			if len(nodes) != len(want) {
				return viol("export", i, op, fmt.Sprintf("export of version %d: number of nodes", ver), len(want), len(nodes))
			}
			if !compress {
				for j, n := range nodes {
					w := want[j]
					var wv []byte
					if w.IsLeaf() {
						wv = p.Value(w.V)
					}
					if !bytes.Equal(n.Key, p.Key(w.K)) || !bytes.Equal(n.Value, wv) || (n.Value == nil) != (wv == nil) || n.Version != w.Ver || int(n.Height) != w.H {
						return viol("export", i, op, fmt.Sprintf("export of version %d: node %d (post-order)", ver, j),
							fmt.Sprintf("key=%x value=%s version=%d height=%d", p.Key(w.K), hx(wv), w.Ver, w.H),
							fmt.Sprintf("key=%x value=%s version=%d height=%d", n.Key, hx(n.Value), n.Version, n.Height))
					}
				}
			}
			// import into an empty store
			db := dbm.NewMemDB()
			fast := rng.Intn(2) == 0
			nt := iavl.NewMutableTree(db, []int{0, 100}[rng.Intn(2)], !fast, logger)
			if _, err := nt.Load(); err != nil {
				panic(err)
			}
			imp, err := nt.Import(ver)
			if err != nil {
				return viol("export", i, op, fmt.Sprintf("Import(%d) into an empty store", ver), "ok", err)
			}
			var dst iavl.NodeImporter = imp
			if compress {
				dst = iavl.NewCompressImporter(imp)
			}
			for j, n := range nodes {
				if err := dst.Add(n); err != nil {
					imp.Close()
					return viol("export", i, op, fmt.Sprintf("import of version %d (compressed=%v): Add node %d", ver, compress, j), "ok", err)
				}
			}
			if err := imp.Commit(); err != nil {
				imp.Close()
				return viol("export", i, op, fmt.Sprintf("import of version %d (compressed=%v): Commit", ver, compress), "ok", err)
			}
			imp.Close()
			root := e.h.Hash(t, ver+1)
			if !bytes.Equal(nt.Hash(), root) {
				return viol("export", i, op, fmt.Sprintf("imported version %d (compressed=%v): root hash", ver, compress), hx(root), hx(nt.Hash()))
			}
			if nt.Version() != ver {
				return viol("export", i, op, fmt.Sprintf("imported version %d: Version()", ver), ver, nt.Version())
			}
			if v := e.checkReads(i, op, fmt.Sprintf("imported version %d (compressed=%v)", ver, compress), nt, t); v != nil {
				return v
			}
			// a proof from the imported tree verifies against the original root
			if t != nil && len(p.Value(1)) > 0 {
				leaves := t.Leaves()
				l := leaves[rng.Intn(len(leaves))]
				if val := p.Value(l.V); len(val) > 0 {
					pr, err := nt.ImmutableTree.GetMembershipProof(p.Key(l.K))
					if err != nil || !ics23.VerifyMembership(ics23.IavlSpec, root, pr, p.Key(l.K), val) {
						return viol("export", i, op, fmt.Sprintf("imported version %d: membership proof of %x verifies against the original root", ver, p.Key(l.K)), true, fmt.Sprint(false, " ", err))
					}
				}
			}
			_ = nt.Close()
			e.obs(len(nodes) + 3)
		}
	}
	return nil
}
