package exec

import (
	"fmt"
	"math"
	"sync/atomic"

	corestore "cosmossdk.io/core/store"
	"github.com/cosmos/iavl"
)

// CountDB counts the node reads (Get on the 's' key space) the library issues.
type CountDB struct {
	corestore.KVStoreWithBatch
	NodeGets int64
}

func (c *CountDB) Get(key []byte) ([]byte, error) {
	if len(key) > 0 && key[0] == 's' {
		atomic.AddInt64(&c.NodeGets, 1)
	}
	return c.KVStoreWithBatch.Get(key)
}

func (c *CountDB) take() int64 { return atomic.SwapInt64(&c.NodeGets, 0) }

// Take returns the node reads since the last call and resets the counter.
func (c *CountDB) Take() int64 { return c.take() }

// SweepCost: C11 - height/size equal the specification's, the AVL bound holds numerically, and with
// nothing cached a lookup reads at most 2h+2 nodes, a proof at most 10h+10 (h from the spec tree).
func (e *Executor) SweepCost(i int, op string) *Violation {
	cdb, ok := e.db.(*CountDB)
	if !ok {
		panic("SweepCost needs the counting store")
	}
	check := func(what string, h int, size int64, gotH int8, gotSize int64) *Violation {
		if int(gotH) != h || gotSize != size {
			return viol("cost", i, op, what+" Height(),Size()", fmt.Sprint(h, ",", size), fmt.Sprint(gotH, ",", gotSize))
		}
		if size > 0 && float64(gotH) > 1.4405*math.Log2(float64(size)+2) {
			return viol("cost", i, op, what+" AVL bound h <= 1.4405*log2(n+2)", fmt.Sprintf("<= %.2f", 1.4405*math.Log2(float64(size)+2)), gotH)
		}
		return nil
	}
	if v := check("working", e.work.Height(), e.work.Size(), e.tree.Height(), e.tree.Size()); v != nil {
		return v
	}
	p := e.Cfg.Pal
	for _, ver := range e.sortedVersions() {
		t := e.saved[ver]
		// a fresh handle with the index off and no cache: every node comes from the store
		h := iavl.NewMutableTree(e.db, 0, true, logger, e.opts()...)
		it, err := h.GetImmutable(ver)
		if err != nil {
			return viol("cost", i, op, fmt.Sprintf("GetImmutable(%d)", ver), "ok", err)
		}
		if v := check(fmt.Sprintf("version %d", ver), t.Height(), t.Size(), it.Height(), it.Size()); v != nil {
			return v
		}
		hh := int64(t.Height())
		cdb.take()
		for pos := 0; pos < p.NPos(); pos++ {
			key := p.Pos(pos)
			_, _ = it.Get(key)
			if n := cdb.take(); n > 2*hh+2 {
				return viol("cost", i, op, fmt.Sprintf("version %d Get(%x): nodes read (h=%d)", ver, key, hh), fmt.Sprint("<= ", 2*hh+2), n)
			}
			_, _ = it.Has(key)
			if n := cdb.take(); n > 2*hh+2 {
				return viol("cost", i, op, fmt.Sprintf("version %d Has(%x): nodes read (h=%d)", ver, key, hh), fmt.Sprint("<= ", 2*hh+2), n)
			}
			_, _, _ = it.GetWithIndex(key)
			if n := cdb.take(); n > 2*hh+2 {
				return viol("cost", i, op, fmt.Sprintf("version %d GetWithIndex(%x): nodes read (h=%d)", ver, key, hh), fmt.Sprint("<= ", 2*hh+2), n)
			}
			if t != nil {
				_, _ = it.GetProof(key)
				if n := cdb.take(); n > 10*hh+10 {
					return viol("cost", i, op, fmt.Sprintf("version %d GetProof(%x): nodes read (h=%d)", ver, key, hh), fmt.Sprint("<= ", 10*hh+10), n)
				}
			}
			e.obs(4)
		}
		for idx := int64(0); idx <= t.Size(); idx++ {
			_, _, _ = it.GetByIndex(idx)
			if n := cdb.take(); n > 2*hh+2 {
				return viol("cost", i, op, fmt.Sprintf("version %d GetByIndex(%d): nodes read (h=%d)", ver, idx, hh), fmt.Sprint("<= ", 2*hh+2), n)
			}
			e.obs(1)
		}
		_ = h.Close()
	}
	return nil
}
