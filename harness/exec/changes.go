package exec

import (
	"bytes"
	"fmt"

	"github.com/cosmos/iavl"
	dbm "github.com/cosmos/iavl/db"

	"verif/harness/model"
)

func (e *Executor) fmtCS(cs []model.CSPair) string {
	var sb bytes.Buffer
	for _, c := range cs {
		if c.Del {
			fmt.Fprintf(&sb, "del %x; ", e.Cfg.Pal.Key(c.K))
		} else {
			fmt.Fprintf(&sb, "%x=%x; ", e.Cfg.Pal.Key(c.K), e.Cfg.Pal.Value(c.V))
		}
	}
	return sb.String()
}

func fmtRealCS(cs *iavl.ChangeSet) string {
	var sb bytes.Buffer
	for _, c := range cs.Pairs {
		if c.Delete {
			fmt.Fprintf(&sb, "del %x; ", c.Key)
		} else {
			fmt.Fprintf(&sb, "%x=%x; ", c.Key, c.Value)
		}
	}
	return sb.String()
}

func (e *Executor) sameCS(want []model.CSPair, got *iavl.ChangeSet) bool {
	if len(want) != len(got.Pairs) {
		return false
	}
	for j, c := range want {
		g := got.Pairs[j]
		if g.Delete != c.Del || !bytes.Equal(g.Key, e.Cfg.Pal.Key(c.K)) {
			return false
		}
		if !c.Del && (!bytes.Equal(g.Value, e.Cfg.Pal.Value(c.V)) || g.Value == nil) {
			return false
		}
	}
	return true
}

// judged reports whether the specification states the change set of version v: its predecessor
// is retained, or v is the very first version of the store.
func (e *Executor) judged(v int64) bool {
	if _, ok := e.changes[v]; !ok {
		return false
	}
	if v-1 >= e.first && v-1 <= e.latest {
		return true
	}
	return v == e.genesis && v == e.first
}

// SweepChanges: C15.
func (e *Executor) SweepChanges(i int, op string) *Violation {
	if e.latest == 0 {
		return nil
	}
	for a := e.first; a <= e.latest; a++ {
		for b := a; b <= e.latest+1; b++ {
			var vers []int64
			got := map[int64]*iavl.ChangeSet{}
			err := e.tree.TraverseStateChanges(a, b, func(version int64, cs *iavl.ChangeSet) error {
				vers = append(vers, version)
				cp := &iavl.ChangeSet{}
				for _, p := range cs.Pairs {
					kp := &iavl.KVPair{Key: append([]byte(nil), p.Key...), Delete: p.Delete}
					if p.Value != nil {
						kp.Value = append([]byte{}, p.Value...)
					}
					cp.Pairs = append(cp.Pairs, kp)
				}
				got[version] = cp
				return nil
			})
			if err != nil {
				return viol("changes", i, op, fmt.Sprintf("TraverseStateChanges(%d, %d)", a, b), "ok", err)
			}
			// versions reported: consecutive from a; the documented end is exclusive, the loop is
			// inclusive - either is accepted, the property does not say
			hi := b
			if hi > e.latest {
				hi = e.latest
			}
			okRange := len(vers) > 0 && vers[0] == a && (vers[len(vers)-1] == hi || vers[len(vers)-1] == hi-1 || (b-1 < a && len(vers) == 0))
			for j := 1; j < len(vers); j++ {
				okRange = okRange && vers[j] == vers[j-1]+1
			}
			if !okRange && !(len(vers) == 0 && b <= a) {
				return viol("changes", i, op, fmt.Sprintf("TraverseStateChanges(%d, %d): versions reported", a, b), fmt.Sprintf("%d..%d", a, hi), vers)
			}
			for _, v := range vers {
				if !e.judged(v) {
					continue
				}
				if !e.sameCS(e.changes[v], got[v]) {
					return viol("changes", i, op, fmt.Sprintf("TraverseStateChanges(%d, %d): change set of version %d", a, b, v), e.fmtCS(e.changes[v]), fmtRealCS(got[v]))
				}
				e.obs(1)
			}
		}
	}
	// replay of the extracted change sets into an empty store, when the whole history is retained
	if e.genesis != 0 && e.first == e.genesis && (i == e.nsteps-1 || op == "reopen") {
		return e.replayChangeSets(i, op)
	}
	return nil
}

func (e *Executor) replayChangeSets(i int, op string) *Violation {
	var sets []*iavl.ChangeSet
	err := e.tree.TraverseStateChanges(e.first, e.latest+1, func(version int64, cs *iavl.ChangeSet) error {
		cp := &iavl.ChangeSet{}
		for _, p := range cs.Pairs {
			kp := &iavl.KVPair{Key: append([]byte(nil), p.Key...), Delete: p.Delete}
			if !p.Delete {
				kp.Value = append([]byte{}, p.Value...)
			}
			cp.Pairs = append(cp.Pairs, kp)
		}
		sets = append(sets, cp)
		return nil
	})
	if err != nil || int64(len(sets)) != e.latest-e.first+1 {
		return viol("changes", i, op, "TraverseStateChanges over the whole history", fmt.Sprint(e.latest-e.first+1, " versions"), fmt.Sprint(len(sets), ",", err))
	}
	t := iavl.NewMutableTree(dbm.NewMemDB(), 100, e.Seed%2 == 0, logger, e.opts()...)
	if e.iv != 0 && e.Cfg.IVCall {
		t.SetInitialVersion(uint64(e.iv))
	}
	if _, err := t.Load(); err != nil {
		panic(err)
	}
	defer t.Close()
	allNormal := true
	for j, cs := range sets {
		v := e.first + int64(j)
		got, err := t.SaveChangeSet(cs)
		if err != nil || got != v {
			return viol("changes", i, op, fmt.Sprintf("replay: SaveChangeSet of the extracted set of version %d", v), fmt.Sprint(v, ",ok"), fmt.Sprint(got, ",", err))
		}
		var pairs []kv
		_, _ = t.Iterate(func(k, val []byte) bool {
			pairs = append(pairs, kv{append([]byte(nil), k...), append([]byte(nil), val...)})
			return false
		})
		if diffPairs(e.pairs(e.saved[v]), pairs) != "" {
			return viol("changes", i, op, fmt.Sprintf("replay: contents of version %d", v), fmtPairs(e.pairs(e.saved[v])), fmtPairs(pairs))
		}
		allNormal = allNormal && e.normal[v]
		if allNormal {
			want := e.h.Hash(e.saved[v], v+1)
			if !bytes.Equal(t.Hash(), want) {
				return viol("changes", i, op, fmt.Sprintf("replay: root hash of version %d (history in normal form)", v), hx(want), hx(t.Hash()))
			}
		}
		e.obs(2)
	}
	return nil
}
