package exec

import (
	"bytes"
	"fmt"
	"sync"
	"sync/atomic"
	"time"

	"github.com/cosmos/iavl"

	"verif/harness/model"
)

// The yield hook of the library is one package-level variable: schedule replays run one at a time.
var parkMu sync.Mutex

// withParking runs a writer call; if ParkPoints is set, the call runs in its own goroutine and is
// parked at every listed yield point it reaches, while this goroutine plays the readers (C06).
func (e *Executor) withParking(i int, s *model.Step, call func()) *Violation {
	if len(e.ParkPoints) == 0 {
		call()
		return nil
	}
	parkMu.Lock()
	defer parkMu.Unlock()
	want := map[string]bool{}
	for _, p := range e.ParkPoints {
		want[p] = true
	}
	reached := make(chan string)
	resume := make(chan struct{})
	done := make(chan struct{})
	var inSweep atomic.Bool
	var writerPanic interface{}
	iavl.VerifYield = func(p string) {
		if want[p] && !inSweep.Load() {
			reached <- p
			<-resume
		}
	}
	defer func() { iavl.VerifYield = nil }()
	// readers parked between their two critical sections before the writer starts
	parked := e.parkReaders(i, s)
	go func() {
		defer close(done)
		defer func() {
			if r := recover(); r != nil {
				writerPanic = r
			}
		}()
		call()
	}()
	var v *Violation
	for {
		select {
		case p := <-reached:
			if e.ParkStats == nil {
				e.ParkStats = map[string]int{}
			}
			e.ParkStats[p]++
			inSweep.Store(true)
			if v == nil {
				v = e.readerSweep(i, s, p)
			}
			inSweep.Store(false)
			resume <- struct{}{}
		case <-done:
			if writerPanic != nil {
				panic(writerPanic)
			}
			if v == nil {
				v = parked.finish()
			} else {
				parked.finish()
			}
			return v
		}
	}
}

// readerSweep: with the writer parked at a yield point, every committed version that the running
// operation does not delete is read and compared with its contents as committed.
func (e *Executor) readerSweep(i int, s *model.Step, point string) *Violation {
	for _, ver := range e.sortedVersions() {
		if s.Op == "delto" && ver <= s.Args.N {
			continue // being deleted by the running call
		}
		it, err := e.tree.GetImmutable(ver)
		if err != nil {
			return viol("conc", i, s.Op, fmt.Sprintf("writer parked at %s: GetImmutable(%d) of a retained version", point, ver), "ok", err)
		}
		if v := e.checkReads(i, s.Op, fmt.Sprintf("writer parked at %s: version %d", point, ver), it, e.saved[ver]); v != nil {
			v.Class = "conc"
			return v
		}
		if e.saved[ver] != nil {
			root := e.h.Hash(e.saved[ver], ver+1)
			if !bytes.Equal(it.Hash(), root) {
				return viol("conc", i, s.Op, fmt.Sprintf("writer parked at %s: hash of version %d", point, ver), hx(root), hx(it.Hash()))
			}
		}
	}
	return nil
}

// parkedReaders are reader goroutines stopped between GetFastNode and the latest-version check.
type parkedReaders struct {
	e                *Executor
	i                int
	op               string
	wg               sync.WaitGroup
	gate             chan struct{}
	mu               sync.Mutex
	viols            []*Violation
	n                int
	atHook, finished int32
}

func (e *Executor) parkReaders(i int, s *model.Step) *parkedReaders {
	pr := &parkedReaders{e: e, i: i, op: s.Op, gate: make(chan struct{})}
	wantReader := false
	for _, p := range e.ParkPoints {
		wantReader = wantReader || p == "get:fastnode"
	}
	if !wantReader || !e.fast || e.latest == 0 {
		return pr
	}
	// the hook of the writer is already installed; reader goroutines are recognised by a per-goroutine gate:
	// they call Get through a wrapper that installs nothing - instead they block in the shared hook on "get:fastnode".
	// To keep the single hook simple, readers are parked by running Get up to the hook in their own goroutine
	// with a dedicated hook decision: the hook parks "get:fastnode" callers on pr.gate.
	prev := iavl.VerifYield
	iavl.VerifYield = func(p string) {
		if p == "get:fastnode" {
			pr.mu.Lock()
			armed := pr.n > 0
			if armed {
				pr.n--
			}
			pr.mu.Unlock()
			if armed {
				atomic.AddInt32(&pr.atHook, 1)
				<-pr.gate
			}
			return
		}
		if prev != nil {
			prev(p)
		}
	}
	p := e.Cfg.Pal
	vers := e.sortedVersions()
	targets := []int64{vers[len(vers)-1]}
	if len(vers) > 1 {
		targets = append(targets, vers[0])
	}
	started := make(chan struct{}, 64)
	var launched int32
	for _, ver := range targets {
		if s.Op == "delto" && ver <= s.Args.N {
			continue
		}
		it, err := e.tree.GetImmutable(ver)
		if err != nil {
			continue
		}
		tr := e.saved[ver]
		for k := 1; k <= p.K; k++ {
			key := p.Key(k)
			var want []byte
			for _, l := range tr.Leaves() {
				if l.K == k {
					want = p.Value(l.V)
				}
			}
			pr.mu.Lock()
			pr.n = 1 // exactly the reader launched next is parked when it reaches the hook
			pr.mu.Unlock()
			pr.wg.Add(1)
			launched++
			go func(ver int64, key, want []byte) {
				defer pr.wg.Done()
				defer atomic.AddInt32(&pr.finished, 1)
				started <- struct{}{}
				got, err := it.Get(key)
				if err != nil || !bytes.Equal(got, want) || (got == nil) != (want == nil) {
					pr.mu.Lock()
					pr.viols = append(pr.viols, viol("conc", pr.i, pr.op, fmt.Sprintf("reader of version %d parked between its fast-node read and the latest-version check while the writer ran: Get(%x)", ver, key), hx(want), fmt.Sprint(hx(got), ",", err)))
					pr.mu.Unlock()
				}
			}(ver, key, want)
			<-started
			// wait until the reader is parked at the hook (or has returned without reaching it)
			for spin := 0; spin < 20000 && atomic.LoadInt32(&pr.atHook)+atomic.LoadInt32(&pr.finished) < launched; spin++ {
				time.Sleep(50 * time.Microsecond)
			}
			pr.mu.Lock()
			pr.n = 0
			pr.mu.Unlock()
		}
	}
	return pr
}

func (pr *parkedReaders) finish() *Violation {
	close(pr.gate)
	pr.wg.Wait()
	pr.mu.Lock()
	defer pr.mu.Unlock()
	if len(pr.viols) > 0 {
		return pr.viols[0]
	}
	return nil
}
