package exec

import (
	"bytes"
	"fmt"
	"math/rand"

	corestore "cosmossdk.io/core/store"
	"github.com/cosmos/iavl"

	"verif/harness/model"
)

// rangeOf is the definition an iteration must meet (RangeOf of IAVLTree.tla; TLC checks that the
// library's traversal algorithm, transcribed as Trav, equals it on every tree of the bounded
// instance): the stored pairs with start <= k < end (<= end if inclusive), nil = unbounded.
func rangeOf(pairs []kv, start, end []byte, asc, incl bool) []kv {
	var out []kv
	for _, p := range pairs {
		if start != nil && bytes.Compare(p.k, start) < 0 {
			continue
		}
		if end != nil {
			c := bytes.Compare(p.k, end)
			if c > 0 || (c == 0 && !incl) {
				continue
			}
		}
		out = append(out, p)
	}
	if !asc {
		for i, j := 0, len(out)-1; i < j; i, j = i+1, j-1 {
			out[i], out[j] = out[j], out[i]
		}
	}
	return out
}

func sameBound(a, b []byte) bool { return bytes.Equal(a, b) } // nil and empty are not distinguished

// drain walks an iterator and checks the contract of store.Iterator.
func (e *Executor) drain(i int, op, what string, itr corestore.Iterator, start, end []byte, want []kv, indexed bool) *Violation {
	ds, de := itr.Domain()
	if !sameBound(ds, start) || !sameBound(de, end) {
		return viol("iter", i, op, what+" Domain()", fmt.Sprint(hx(start), ",", hx(end)), fmt.Sprint(hx(ds), ",", hx(de)))
	}
	var got []kv
	for n := 0; itr.Valid(); itr.Next() {
		got = append(got, kv{append([]byte(nil), itr.Key()...), append([]byte(nil), itr.Value()...)})
		if itr.Value() == nil {
			return viol("iter", i, op, what+" Value() of a valid iterator", "non-nil", "nil")
		}
		if n++; n > len(want)+3 {
			break
		}
	}
	if msg := diffPairs(want, got); msg != "" {
		v := viol("iter", i, op, what+" sequence", fmtPairs(want), fmtPairs(got))
		if !e.staleIndex() || !indexed {
			return v
		}
		e.known("F-C07a", v)
	}
	if itr.Valid() || itr.Valid() {
		return viol("iter", i, op, what+" Valid() after exhaustion", false, true)
	}
	if err := itr.Error(); err != nil {
		return viol("iter", i, op, what+" Error()", "nil", err)
	}
	if err := itr.Close(); err != nil {
		return viol("iter", i, op, what+" Close()", "nil", err)
	}
	if itr.Valid() {
		return viol("iter", i, op, what+" Valid() after Close", false, true)
	}
	e.obs(len(got) + 4)
	return nil
}

type bound struct {
	b    []byte
	name string
}

func (e *Executor) bounds() [][]byte {
	p := e.Cfg.Pal
	bs := [][]byte{nil, {}}
	for i := 0; i < p.NPos(); i++ {
		bs = append(bs, p.Pos(i))
	}
	// a proper prefix and an extension of a stored key
	k := p.Key(1 + p.K/2)
	if len(k) > 1 {
		bs = append(bs, k[:len(k)-1])
	}
	bs = append(bs, append(append([]byte(nil), k...), 0x00))
	return bs
}

// iterTree checks every iteration interface of one tree state for one (start, end, direction).
func (e *Executor) iterTriple(i int, op, what string, it *iavl.ImmutableTree, mt *iavl.MutableTree, pairs []kv, start, end []byte, asc bool, rng *rand.Rand) *Violation {
	want := rangeOf(pairs, start, end, asc, false)
	tag := fmt.Sprintf("%s [%s,%s) asc=%v", what, hx(start), hx(end), asc)
	// 1. the tree's own Iterator (index iterator at the latest version with the index on, tree walk otherwise)
	// (not on the working state: MutableTree's inner ImmutableTree "should not be used directly by
	// callers"; its Iterator is the persisted-index iterator and rightly ignores uncommitted changes)
	if mt == nil {
		itr, err := it.Iterator(start, end, asc)
		if err != nil {
			return viol("iter", i, op, tag+" ImmutableTree.Iterator", "ok", err)
		}
		if v := e.drain(i, op, tag+" ImmutableTree.Iterator", itr, start, end, want, true); v != nil {
			return v
		}
	}
	// 2. the tree-walk iterator
	if v := e.drain(i, op, tag+" NewIterator(tree walk)", iavl.NewIterator(start, end, asc, it), start, end, want, false); v != nil {
		return v
	}
	// 3. the mutable tree's iterator (index + uncommitted changes when the index is on)
	if mt != nil {
		itr, err := mt.Iterator(start, end, asc)
		if err != nil {
			return viol("iter", i, op, tag+" MutableTree.Iterator", "ok", err)
		}
		if v := e.drain(i, op, tag+" MutableTree.Iterator", itr, start, end, want, true); v != nil {
			return v
		}
	}
	// 4. callbacks: IterateRange, with a stop at a chosen position
	stopAt := -1
	if len(want) > 0 && rng.Intn(2) == 0 {
		stopAt = rng.Intn(len(want))
	}
	var got []kv
	stopped := it.IterateRange(start, end, asc, func(k, v []byte) bool {
		got = append(got, kv{append([]byte(nil), k...), append([]byte(nil), v...)})
		return len(got)-1 == stopAt
	})
	exp := want
	if stopAt >= 0 {
		exp = want[:stopAt+1]
	}
	if stopped != (stopAt >= 0) || diffPairs(exp, got) != "" {
		return viol("iter", i, op, fmt.Sprintf("%s IterateRange stop at %d", tag, stopAt), fmt.Sprint(stopAt >= 0, " ", fmtPairs(exp)), fmt.Sprint(stopped, " ", fmtPairs(got)))
	}
	e.obs(len(got) + 1)
	return nil
}

// iterInclusive checks IterateRangeInclusive on a persisted tree (it reports the leaf's node version).
func (e *Executor) iterInclusive(i int, op, what string, it *iavl.ImmutableTree, t *model.Tree, start, end []byte, asc bool, rng *rand.Rand) *Violation {
	pairs := e.pairs(t)
	want := rangeOf(pairs, start, end, asc, true)
	vers := map[string]int64{}
	for _, l := range t.Leaves() {
		vers[string(e.Cfg.Pal.Key(l.K))] = l.Ver
	}
	stopAt := -1
	if len(want) > 0 && rng.Intn(2) == 0 {
		stopAt = rng.Intn(len(want))
	}
	var got []kv
	var badVer string
	stopped := it.IterateRangeInclusive(start, end, asc, func(k, v []byte, ver int64) bool {
		got = append(got, kv{append([]byte(nil), k...), append([]byte(nil), v...)})
		if vers[string(k)] != ver {
			badVer = fmt.Sprintf("key %x: version %d, expected %d", k, ver, vers[string(k)])
		}
		return len(got)-1 == stopAt
	})
	exp := want
	if stopAt >= 0 {
		exp = want[:stopAt+1]
	}
	tag := fmt.Sprintf("%s [%s,%s] asc=%v IterateRangeInclusive stop at %d", what, hx(start), hx(end), asc, stopAt)
	if stopped != (stopAt >= 0) || diffPairs(exp, got) != "" {
		return viol("iter", i, op, tag, fmt.Sprint(stopAt >= 0, " ", fmtPairs(exp)), fmt.Sprint(stopped, " ", fmtPairs(got)))
	}
	if badVer != "" {
		return viol("iter", i, op, tag+" leaf version", "the version that wrote the leaf", badVer)
	}
	e.obs(len(got) + 1)
	return nil
}

// SweepIter: C08. Full says whether the complete bound matrix is used or a seeded sample.
func (e *Executor) SweepIter(i int, op string, full bool) *Violation {
	rng := rand.New(rand.NewSource(e.Seed*31 + int64(i)))
	bs := e.bounds()
	type triple struct {
		s, e []byte
		asc  bool
	}
	var all []triple
	for _, s := range bs {
		for _, en := range bs {
			all = append(all, triple{s, en, true}, triple{s, en, false})
		}
	}
	pick := func(n int) []triple {
		if full || n >= len(all) {
			return all
		}
		out := make([]triple, 0, n)
		for _, j := range rng.Perm(len(all))[:n] {
			out = append(out, all[j])
		}
		return out
	}
	// the working state: uncommitted additions, updates and removals on top of the loaded version
	wpairs := e.pairs(e.work)
	for _, t := range pick(60) {
		if v := e.iterTriple(i, op, "working", e.tree.ImmutableTree, e.tree, wpairs, t.s, t.e, t.asc, rng); v != nil {
			return v
		}
	}
	// Iterate with a stop at every position (working state: through the overlay iterator when the index is on)
	for stop := -1; stop < len(wpairs); stop++ {
		var got []kv
		stopped, err := e.tree.Iterate(func(k, v []byte) bool {
			got = append(got, kv{append([]byte(nil), k...), append([]byte(nil), v...)})
			return len(got)-1 == stop
		})
		exp := wpairs
		if stop >= 0 {
			exp = wpairs[:stop+1]
		}
		if err != nil || stopped != (stop >= 0) || diffPairs(exp, got) != "" {
			v := viol("iter", i, op, fmt.Sprintf("working Iterate stop at %d", stop), fmt.Sprint(stop >= 0, " ", fmtPairs(exp)), fmt.Sprint(stopped, " ", fmtPairs(got), err))
			if err != nil || !e.staleIndex() {
				return v
			}
			e.known("F-C07a", v)
		}
		e.obs(1)
	}
	vs := e.sortedVersions()
	for _, ver := range vs {
		it, err := e.tree.GetImmutable(ver)
		if err != nil {
			return viol("iter", i, op, fmt.Sprintf("GetImmutable(%d)", ver), "ok", err)
		}
		pairs := e.pairs(e.saved[ver])
		n := 12
		if ver == e.latest || ver == e.first {
			n = 40
		}
		for _, t := range pick(n) {
			if v := e.iterTriple(i, op, fmt.Sprintf("version %d", ver), it, nil, pairs, t.s, t.e, t.asc, rng); v != nil {
				return v
			}
			if v := e.iterInclusive(i, op, fmt.Sprintf("version %d", ver), it, e.saved[ver], t.s, t.e, t.asc, rng); v != nil {
				return v
			}
		}
	}
	return nil
}
