package exec

import (
	"bytes"
	"encoding/binary"
	"fmt"
	"math/rand"
	"sync"

	"github.com/cosmos/iavl"
	dbm "github.com/cosmos/iavl/db"

	"verif/harness/model"
)

// An independent ENCODER of the pinned on-disk format (shares no code with the library): it turns
// the physical state the specification expects into store bytes, which the library must then read.

func encVarint(b []byte, x int64) []byte {
	var buf [binary.MaxVarintLen64]byte
	return append(b, buf[:binary.PutVarint(buf[:], x)]...)
}

func encBytes(b, s []byte) []byte {
	var buf [binary.MaxVarintLen64]byte
	b = append(b, buf[:binary.PutUvarint(buf[:], uint64(len(s)))]...)
	return append(b, s...)
}

func sKey(ver, id int64) []byte {
	k := make([]byte, 13)
	k[0] = 's'
	binary.BigEndian.PutUint64(k[1:], uint64(ver))
	binary.BigEndian.PutUint32(k[9:], uint32(id))
	return k
}

// RawCollector gathers real store values for the decoder-totality part of C13.
type RawCollector struct {
	mu     sync.Mutex
	Nodes  map[string]bool // values found under s keys that are nodes
	Fast   map[string]bool
	Marker map[string]bool
}

func NewRawCollector() *RawCollector {
	return &RawCollector{Nodes: map[string]bool{}, Fast: map[string]bool{}, Marker: map[string]bool{}}
}

func (c *RawCollector) add(m map[string]bool, v []byte, limit int) {
	c.mu.Lock()
	if len(m) < limit {
		m[string(v)] = true
	}
	c.mu.Unlock()
}

// Collect scans the executor's store.
func (e *Executor) Collect(c *RawCollector) {
	itr, err := e.db.Iterator(nil, nil)
	if err != nil {
		return
	}
	defer itr.Close()
	for ; itr.Valid(); itr.Next() {
		k, v := itr.Key(), itr.Value()
		if len(v) > 1024 {
			continue // the mutation space grows with the square of the length; long encodings add nothing to it
		}
		switch {
		case k[0] == 's' && (len(v) == 0 || v[0] == 's'):
			c.add(c.Marker, v, 40)
		case k[0] == 's':
			c.add(c.Nodes, v, 400)
		case k[0] == 'f':
			c.add(c.Fast, v, 100)
		}
	}
}

// EncodeImage writes the store image the specification expects (Disk, fast index, label) into a
// fresh MemDB using the independent encoder.
func (e *Executor) EncodeImage(ph *model.Phys, rng *rand.Rand) *dbm.MemDB {
	db := dbm.NewMemDB()
	p := e.Cfg.Pal
	byID := map[model.NodeKey]*model.Tree{}
	for _, t := range e.saved {
		for _, n := range t.AllNodes() {
			byID[model.NodeKey{Ver: n.Ver, ID: n.ID}] = n
		}
	}
	stored := map[model.NodeKey]bool{}
	for _, d := range ph.Disk {
		stored[d.Key] = true
	}
	// a reference to a root node may use nonce 1 although the node lives under nonce 0 (the reader falls back)
	ref := func(k model.NodeKey) model.NodeKey {
		if k.ID == 1 && !stored[k] && rng.Intn(2) == 0 {
			return model.NodeKey{Ver: k.Ver, ID: 0}
		}
		return k
	}
	for _, d := range ph.Disk {
		var val []byte
		switch d.Kind {
		case "empty":
			val = []byte{}
		case "ref":
			t := ref(model.NodeKey{Ver: d.TVer, ID: d.TID})
			val = sKey(t.Ver, t.ID)
		case "leaf":
			val = encVarint(val, 0)
			val = encVarint(val, 1)
			val = encBytes(val, p.Key(d.K))
			val = encBytes(val, p.Value(d.V))
		case "inner":
			sn := byID[d.Key]
			if sn == nil && d.Key.ID == 0 {
				sn = byID[model.NodeKey{Ver: d.Key.Ver, ID: 1}]
			}
			if sn == nil {
				panic(fmt.Sprintf("expected disk entry %v is not a node of a retained tree", d.Key))
			}
			val = encVarint(val, int64(d.H))
			val = encVarint(val, d.Sz)
			val = encBytes(val, p.Key(d.K))
			val = encBytes(val, e.h.Hash(sn, 0))
			val = encVarint(val, 0)
			l, r := ref(d.L), ref(d.R)
			val = encVarint(val, l.Ver)
			val = encVarint(val, l.ID)
			val = encVarint(val, r.Ver)
			val = encVarint(val, r.ID)
		}
		if err := db.Set(sKey(d.Key.Ver, d.Key.ID), val); err != nil {
			panic(err)
		}
	}
	for _, f := range ph.Fidx {
		var val []byte
		val = encVarint(val, f.Ver)
		val = encBytes(val, p.Value(f.Val))
		if err := db.Set(append([]byte{'f'}, p.Key(f.K)...), val); err != nil {
			panic(err)
		}
	}
	if ph.Label >= 0 {
		if err := db.Set([]byte("mstorage_version"), []byte(fmt.Sprintf("1.1.0-%d", ph.Label))); err != nil {
			panic(err)
		}
	}
	return db
}

// CheckImage opens a store image with the library and compares every retained version (contents through
// every read API, root hash) with the specification.
func (e *Executor) CheckImage(i int, op string, db *dbm.MemDB, fast bool, cache int) *Violation {
	t := iavl.NewMutableTree(db, cache, !fast, logger, e.opts()...)
	if e.iv != 0 && e.Cfg.IVCall {
		t.SetInitialVersion(uint64(e.iv))
	}
	v, err := t.Load()
	if err != nil || v != e.latest {
		return viol("format", i, op, "Load() of a store written by the independent encoder", fmt.Sprint(e.latest, ",ok"), fmt.Sprint(v, ",", err))
	}
	av := t.AvailableVersions()
	if e.latest > 0 && (len(av) == 0 || int64(av[0]) != e.first || int64(av[len(av)-1]) != e.latest) {
		return viol("format", i, op, "AvailableVersions() of the encoded store", fmt.Sprint(e.first, "..", e.latest), av)
	}
	for _, ver := range e.sortedVersions() {
		it, err := t.GetImmutable(ver)
		if err != nil {
			return viol("format", i, op, fmt.Sprintf("encoded store: GetImmutable(%d)", ver), "ok", err)
		}
		if x := e.checkReads(i, op, fmt.Sprintf("encoded store, version %d", ver), it, e.saved[ver]); x != nil {
			x.Class = "format"
			return x
		}
		want := e.h.Hash(e.saved[ver], ver+1)
		if !bytes.Equal(it.Hash(), want) {
			return viol("format", i, op, fmt.Sprintf("encoded store: hash of version %d", ver), hx(want), hx(it.Hash()))
		}
	}
	// and it must be writable: one more commit gives the hash the specification's algorithm gives
	_ = t.Close()
	return nil
}

// SweepFormat: C13, direction "specification writes, library reads": at commits and at the end of a
// behaviour the expected physical state is encoded independently and read back by the library.
func (e *Executor) SweepFormat(i int, s *model.Step) *Violation {
	if e.curPhys == nil || s == nil {
		return nil
	}
	if !(s.Op == "save" || s.Op == "delto" || s.Op == "lvfo" || i == e.nsteps-1) || e.latest == 0 {
		return nil
	}
	rng := rand.New(rand.NewSource(e.Seed*17 + int64(i)))
	db := e.EncodeImage(e.curPhys, rng)
	// the index is only trusted by the reader if its label says it describes the latest version
	fast := rng.Intn(2) == 0 && !e.curPhys.Stale
	return e.CheckImage(i, s.Op, db, fast, []int{0, 100}[rng.Intn(2)])
}
