// Package tlcrun runs TLC in a private scratch directory and extracts what the checks need:
// the state/transition counts of TLC's own summary, violations, and tagged JSON lines.
package tlcrun

import (
	"bufio"
	"bytes"
	"context"
	"fmt"
	"os"
	"os/exec"
	"path/filepath"
	"regexp"
	"strconv"
	"strings"
	"time"
)

// SpecDir is the directory holding the .tla/.cfg files.
var SpecDir = func() string {
	if d := os.Getenv("VERIF_DIR"); d != "" {
		return filepath.Join(d, "spec")
	}
	return "/verif/spec"
}()

type Result struct {
	Generated int64 // states generated (= transitions explored + initial states)
	Distinct  int64
	Depth     int
	Finished  bool // TLC reported completion ("Model checking completed" / simulation finished)
	Violation string
	Output    string
	Lines     []string // raw stdout lines carrying a <<"TAG", ...>> payload
	Wall      time.Duration
	TimedOut  bool
}

type Opts struct {
	Module   string // e.g. MCIavl
	Config   string // cfg file name inside SpecDir, or "" when CfgText is given
	CfgText  string // generated cfg
	Workers  int
	Simulate string // e.g. "num=100" ("" = BFS)
	Depth    int
	Seed     int64
	Timeout  time.Duration
	Extra    []string
	Tag      string // collect lines starting with <<"Tag",
	JavaOpts string
	Files    map[string]string // extra files written into the scratch directory
}

var reGen = regexp.MustCompile(`(\d+) states generated, (\d+) distinct states found, (\d+) states left on queue`)
var reDepth = regexp.MustCompile(`depth of the complete state graph search is (\d+)`)
var reSim = regexp.MustCompile(`The number of states generated: (\d+)`)

// Run executes TLC. The scratch directory is removed afterwards.
func Run(o Opts) (*Result, error) {
	dir, err := os.MkdirTemp("", "vtlc")
	if err != nil {
		return nil, err
	}
	defer os.RemoveAll(dir)
	ents, err := os.ReadDir(SpecDir)
	if err != nil {
		return nil, err
	}
	for _, e := range ents {
		if strings.HasSuffix(e.Name(), ".tla") || strings.HasSuffix(e.Name(), ".cfg") {
			b, err := os.ReadFile(filepath.Join(SpecDir, e.Name()))
			if err != nil {
				return nil, err
			}
			if err := os.WriteFile(filepath.Join(dir, e.Name()), b, 0o644); err != nil {
				return nil, err
			}
		}
	}
	for name, text := range o.Files {
		if err := os.WriteFile(filepath.Join(dir, name), []byte(text), 0o644); err != nil {
			return nil, err
		}
	}
	cfg := o.Config
	if o.CfgText != "" {
		cfg = "gen.cfg"
		if err := os.WriteFile(filepath.Join(dir, cfg), []byte(o.CfgText), 0o644); err != nil {
			return nil, err
		}
	}
	if o.Workers <= 0 {
		o.Workers = 8
	}
	if o.Timeout <= 0 {
		o.Timeout = 10 * time.Minute
	}
	// TLC unpacks its standard modules into java.io.tmpdir: keep that inside the scratch directory
	jtmp := filepath.Join(dir, "jtmp")
	_ = os.MkdirAll(jtmp, 0o755)
	args := []string{"-XX:+UseParallelGC", "-Xss64m", "-Djava.io.tmpdir=" + jtmp}
	if o.JavaOpts != "" {
		args = append(args, strings.Fields(o.JavaOpts)...)
	}
	args = append(args, "-cp", "/opt/veriftools/tla/tla2tools.jar:/opt/veriftools/tla/CommunityModules-deps.jar", "tlc2.TLC",
		"-workers", strconv.Itoa(o.Workers), "-metadir", filepath.Join(dir, "md"), "-config", cfg, "-noGenerateSpecTE")
	if o.Simulate != "" {
		args = append(args, "-simulate", o.Simulate)
		if o.Depth > 0 {
			args = append(args, "-depth", strconv.Itoa(o.Depth))
		}
		args = append(args, "-seed", strconv.FormatInt(o.Seed, 10))
	}
	args = append(args, o.Extra...)
	args = append(args, o.Module+".tla")
	ctx, cancel := context.WithTimeout(context.Background(), o.Timeout)
	defer cancel()
	cmd := exec.CommandContext(ctx, "java", args...)
	cmd.Dir = dir
	var stderr bytes.Buffer
	cmd.Stderr = &stderr
	stdout, err := cmd.StdoutPipe()
	if err != nil {
		return nil, err
	}
	start := time.Now()
	if err := cmd.Start(); err != nil {
		return nil, err
	}
	res := &Result{}
	var keep strings.Builder
	sc := bufio.NewScanner(stdout)
	sc.Buffer(make([]byte, 1<<20), 1<<28)
	tagPrefix := ""
	if o.Tag != "" {
		tagPrefix = `<<"` + o.Tag + `", `
	}
	for sc.Scan() {
		line := sc.Text()
		if tagPrefix != "" && strings.HasPrefix(line, tagPrefix) {
			res.Lines = append(res.Lines, line)
			continue
		}
		if keep.Len() < 1<<20 {
			keep.WriteString(line)
			keep.WriteByte('\n')
		}
		if m := reGen.FindStringSubmatch(line); m != nil {
			res.Generated, _ = strconv.ParseInt(m[1], 10, 64)
			res.Distinct, _ = strconv.ParseInt(m[2], 10, 64)
		}
		if m := reDepth.FindStringSubmatch(line); m != nil {
			res.Depth, _ = strconv.Atoi(m[1])
		}
		if m := reSim.FindStringSubmatch(line); m != nil {
			res.Generated, _ = strconv.ParseInt(m[1], 10, 64)
		}
		if strings.Contains(line, "Model checking completed. No error has been found.") {
			res.Finished = true
		}
		if strings.HasPrefix(line, "Finished in") && o.Simulate != "" && res.Violation == "" {
			res.Finished = true
		}
		if strings.HasPrefix(line, "Error:") && res.Violation == "" {
			res.Violation = line
		}
	}
	werr := cmd.Wait()
	res.Wall = time.Since(start)
	res.Output = keep.String() + stderr.String()
	if ctx.Err() == context.DeadlineExceeded {
		res.TimedOut = true
		return res, fmt.Errorf("tlc timed out after %s", o.Timeout)
	}
	if werr != nil && res.Violation == "" && !res.Finished {
		return res, fmt.Errorf("tlc failed: %v\n%s", werr, tail(res.Output, 2000))
	}
	return res, nil
}

func tail(s string, n int) string {
	if len(s) <= n {
		return s
	}
	return s[len(s)-n:]
}
