#!/bin/bash
# Refreshes every evidence file: runs all quick checks one after another against /repo's working tree.
cd "$(dirname "$0")/.."
for p in C01 C02 C03 C04 C05 C06 C07 C08 C09 C10 C11 C12 C13 C14 C15 C16 C17 C18 C19 C20; do
  s=$(date +%s)
  out=$(./check $p quick 2>&1); code=$?
  echo "== $p exit=$code [$(( $(date +%s) - s )) s]: $(echo "$out" | grep -v '^VIOLATION' | tail -1 | cut -c1-200)"
  echo "$out" | grep '^VIOLATION' | head -3
done
