#!/usr/bin/env python3
"""Packs confirmed seeded changes into /verif/seeded/<id>/ (patch.diff, demo_test.go, meta.json)."""
import json, os, shutil, sys
RES = {}
for log in sys.argv[1:]:
    for l in open(log):
        if not l.startswith('RESULT'): continue
        parts = l.split()
        name, conf = parts[1], parts[2]
        det = l[l.index('detected-by:[')+13:l.index(']')].split()
        miss = l[l.index('missed-by:[')+11:l.rindex(']')].split()
        RES[name] = (conf, det, miss)
for name, (conf, det, miss) in RES.items():
    prop, m = name.split('-')
    src = f'/tmp/mut/{prop}.out/{m}'
    if not os.path.exists(src + '.diff'): continue
    d = f'/verif/seeded/{name}'
    os.makedirs(d, exist_ok=True)
    shutil.copy(src + '.diff', d + '/patch.diff')
    shutil.copy(src + '_demo_test.go', d + '/demo_test.go')
    txt = open(src + '.txt').read()
    meta = {"id": name, "breaks_property": prop, "origin": "written by a fresh sub-agent that saw only the property text and a scratch worktree of /repo",
            "description_and_what_it_needs_to_manifest": txt,
            "confirmed": conf, "confirmation": "tools/confirm in a scratch worktree of /repo HEAD: the demonstration test passes on the unchanged tree and fails with the change; the change builds; the agent reports that the root test-suite passes with it",
            "what_i_ran": "tools/eval_mutant.sh: quick checks run against the scratch worktree with the change applied (VERIF_REPO)",
            "detected_by_quick_checks": det, "not_detected_by": miss}
    json.dump(meta, open(d + '/meta.json', 'w'), indent=1)
    print(name, conf, det, miss)
