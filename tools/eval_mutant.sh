#!/bin/bash
# usage: [DEMO_DIR=db|v2] eval_mutant.sh <name> <patch.diff> <demo_test.go> <check id>...
# Confirms the mutant in a scratch worktree (demo fails with it, passes without), then runs the given
# quick checks against that scratch worktree (VERIF_REPO) and prints which of them detect it.
set -u
export GOFLAGS=-mod=mod GOPROXY=off GOSUMDB=off GOTOOLCHAIN=local
name=$1; patch=$2; demo=$3; shift 3
W=$(mktemp -d /tmp/evalXXXX)
git -C /repo worktree add -q --detach "$W" HEAD || exit 2
cp /repo/cmd/legacydump/legacydump "$W/cmd/legacydump/" 2>/dev/null
trap 'git -C /repo worktree remove --force "$W"; rm -rf "$W.out"' EXIT
cd "$W"
tn=$(grep -o 'func Test[A-Za-z0-9_]*' "$demo" | head -1 | sed 's/func //')
D="${DEMO_DIR:-.}"
cp "$demo" "$D/zz_demo_test.go"
(cd "$D" && go test -vet=off -count=1 -run "^${tn}\$" .) > "$W.base.out" 2>&1; base=$?
if ! git apply "$patch"; then echo "RESULT $name NOT-APPLICABLE"; exit 1; fi
if ! (cd "$D" && go build ./... 2>/dev/null) ; then echo "RESULT $name NO-BUILD"; exit 1; fi
(cd "$D" && go test -vet=off -count=1 -run "^${tn}\$" .) > "$W.mut.out" 2>&1; mut=$?
rm -f "$D/zz_demo_test.go"
conf="NOT-CONFIRMED(base=$base,mut=$mut)"; [ $base -eq 0 ] && [ $mut -ne 0 ] && conf=CONFIRMED
det=""; miss=""
for c in "$@"; do
  out=$(cd /verif && VERIF_REPO="$W" VERIF_OUT="$W.out" ./check $c quick 2>&1); code=$?
  if [ $code -eq 1 ]; then det="$det $c"; else miss="$miss $c($code)"; fi
  echo "$out" | grep -v '^VIOLATION' | head -3 | cut -c1-400 > "/tmp/mut/eval.$name.$c.txt"
done
echo "RESULT $name $conf detected-by:[$det ] missed-by:[$miss ]"
