#!/bin/bash
# usage: try_mutant.sh <patch.diff> <check id>...   applies the change to /repo, runs the quick checks, undoes it
set -u
cd /repo && git apply "$1" || exit 2
shift
for c in "$@"; do
  out=$(cd /verif && ./check $c quick 2>&1); code=$?
  echo "== $c exit=$code: $(echo "$out" | grep -v '^VIOLATION' | grep -v '^KNOWN' | head -2 | cut -c1-300 | tr '\n' ' ')"
done
cd /repo && git checkout -- . 
