#!/bin/bash
# usage: confirm_mutant.sh <patch.diff> <demo_test.go>
# Confirms in a scratch worktree that the demonstration fails with the change and passes without it,
# and that the change builds. Prints CONFIRMED or NOT-CONFIRMED.
set -u
export GOFLAGS=-mod=mod GOPROXY=off GOSUMDB=off GOTOOLCHAIN=local
W=$(mktemp -d /tmp/confirmXXXX)
git -C /repo worktree add -q --detach "$W" HEAD || exit 2
cp /repo/cmd/legacydump/legacydump "$W/cmd/legacydump/" 2>/dev/null
trap 'git -C /repo worktree remove --force "$W"' EXIT
cp "$2" "$W/zz_demo_test.go"
cd "$W"
name=$(grep -o 'func Test[A-Za-z0-9_]*' zz_demo_test.go | head -1 | sed 's/func //')
go test -vet=off -count=1 -run "^${name}\$" . > /tmp/confirm.base.out 2>&1; base=$?
git apply "$1" || { echo "NOT-CONFIRMED: patch does not apply"; exit 1; }
go build ./... || { echo "NOT-CONFIRMED: does not build"; exit 1; }
go test -vet=off -count=1 -run "^${name}\$" . > /tmp/confirm.mut.out 2>&1; mut=$?
if [ $base -eq 0 ] && [ $mut -ne 0 ]; then echo "CONFIRMED ($name passes on the unchanged tree, fails with the change)"; else echo "NOT-CONFIRMED base=$base mutant=$mut"; tail -5 /tmp/confirm.base.out; fi
