#!/usr/bin/env python3
"""Regenerates /verif/MANIFEST.json from the table below (one row per claimed property)."""
import json, subprocess

CHECKS = {
 "C01": dict(technique="TLA+ spec (Iavl.tla) model-checked with TLC; TLC-generated behaviours replayed on the real library, every read compared with the spec state",
   text="The versioned-store specification Iavl.tla (tree algebra IAVLTree.tla + one action per public call) is model-checked exhaustively on a bounded instance (contents = ghost versioned map, well-formedness, rank/lookup inverse, version range). TLC then generates behaviours (tlc -simulate) that are replayed on the real MutableTree under sampled configurations (cache 0/2/1000, flush threshold 150..100000, sync, MemDB/GoLevelDB/PrefixDB, initial version by option or call, five key palettes incl. prefix-related, 0x00/0xFF and 300-byte keys, empty values); after every step every read API of the working tree and of every retained version is compared with the tree TLC computed. Model checking is the right level: the property is a refinement statement (library refines versioned map) over all histories; the spec is the oracle, TLC the enumerator.",
   note="Trusted: TLC; the projection of a printed spec tree to sorted pairs (harness/model); palettes are order-preserving injections. Bounded: behaviours of 40 steps over 8 keys; configurations are sampled, not enumerated."),
 "C02": dict(technique="TLA+ spec of the IAVL+ algorithm (IAVLTree.tla) as independent implementation; SHA-256 over TLC-computed trees compared with every hash the library reports",
   text="The root hash commits to the exact tree shape, heights, sizes and node versions. IAVLTree.tla transcribes insertion, removal, rebalancing and node versioning; TLC checks its invariants exhaustively on a bounded instance and generates behaviours whose commit steps carry the stamped tree. The harness hashes that tree with a 40-line preimage encoder and requires equality with WorkingHash before the commit, the hash SaveVersion returns, Hash(), and GetImmutable(v).Hash() of every retained version after every later step (reopen, prune, rollback, import, non-default initial version are actions of the spec). Read-only calls are not actions of the spec, so the harness interleaves them (lookups, iteration, proofs, hash queries) at every position; any influence on a later hash is a divergence.",
   note="Trusted: SHA-256 collision freedom; harness/hashref preimage encoder; TLC."),
 "C03": dict(technique="TLA+ spec supplies root (via SHA-256 over the spec tree), presence and neighbours; proofs from the real library verified with ics23 against that root, incl. negative matrix",
   text="For every step of TLC-generated behaviours, for the working tree and every non-empty retained version and every palette key and gap key (below the minimum, above the maximum, between adjacent keys, prefixes/extensions), the library's GetProof / GetMembershipProof / GetNonMembershipProof / GetVersionedProof are checked: right kind, stored value, bracketing keys equal to the spec's neighbours, verification under ics23.IavlSpec against the root hash computed from the specification's tree, and non-verification for another value, another key, the opposite claim and the roots of retained versions in which the claim is false; wrong-kind requests must fail.",
   note="Trusted: the ics23 verifier; SHA-256. Values are non-empty (ics23 rejects empty leaf values)."),
 "C14": dict(technique="TLA+ spec of version numbering/range rules (Iavl.tla) model-checked; TLC behaviours replayed, every version query 0..latest+2 compared after every step",
   text="Iavl.tla carries first/latest/loaded version, the numbering rule (initial version), overwrite-iff-same-hash, and the error rules of LoadVersion / LoadVersionForOverwriting / DeleteVersionsTo; TLC checks InvRange exhaustively on a bounded instance and generates behaviours weighted to commits without writes, loads of older versions with re-commit (equal and different content), pruning, rollback, import, reopen. After every step the harness queries VersionExists, GetImmutable, GetVersioned, LoadVersion on a fresh handle (which rediscovers the range from the store) for every version from first-2 to latest+2, AvailableVersions, GetLatestVersion, Version, WorkingVersion, and checks SaveVersion numbers and error-ness.",
   note="Trusted: TLC. InitialVersion 0 (unset), 1 and 5; version numbers above latest+2 are not queried."),

 "C08": dict(technique="TLC proves the transcribed range traversal equal to its definition (T4); every iteration interface of the real library compared with that definition on TLC-generated states",
   text="iterator.go's explicit-stack range traversal is transcribed in IAVLTree.tla (Trav); TLC checks on every tree of a bounded instance and every (start, end, direction, inclusiveness) that it yields exactly RangeOf, the definition the harness uses. On TLC-generated behaviours (uncommitted additions/updates/removals, index on/off per open, older versions, empty trees) every iterator the state offers - tree walk, persisted index, index+uncommitted overlay, IterateRange, IterateRangeInclusive, Iterate - is drained for bound triples drawn from nil, empty, stored keys, gap keys, a prefix and an extension, and checked for the exact sequence, values, Domain, Valid after exhaustion/Close, Error, Close, and the stop position/return value of callbacks. The three implementations are compared with the same definition, hence with each other.",
   note="Next() is never called on an invalid iterator (the store contract allows a panic there). Bound triples are a seeded sample per state (60 working / 12-40 per version in quick)."),
 "C11": dict(technique="TLC checks AVL well-formedness and the Fibonacci height bound on the spec trees; real Height/Size/rank lookups compared with spec trees, node reads counted through a counting store",
   text="WellFormed (BST order, routing keys, height/size fields, |balance| <= 1) and the integer form of h <= 1.4405 log2(n+2) (a tree of height h has at least fib(h+2) leaves) are checked by TLC on every tree of the bounded instances. On insertion-biased TLC behaviours over 12 keys the real Height(), Size(), GetWithIndex and GetByIndex (all keys, gap keys, all ranks and out-of-range ranks) are compared with the spec tree after every step, the numeric bound is evaluated, and a handle with cache size 0 and the index off is observed through a counting storage wrapper: Get/Has/GetWithIndex/GetByIndex read at most 2h+2 nodes, GetProof at most 10h+10, h taken from the spec tree.",
   note="Performance is observed, not modelled: TLA+ contributes the height. Trees have at most 12 leaves (height <= 5)."),
 "C15": dict(technique="TLC proves the transcribed diff algorithm equal to the net writes of a version (T6); TraverseStateChanges of the real library compared with the TLC-computed change set for every range; SaveChangeSet is a spec action",
   text="diff.go's two-iterator merge is transcribed (Changes) and TLC checks on all consecutive version pairs of a bounded instance that it equals NetChanges (keys written in v and present in v with their value, keys of v-1 absent in v; ascending, once per key) and that applying it to v-1 gives v. Each commit step of a generated behaviour carries Changes(pred, new); after every step the harness calls TraverseStateChanges for every range and compares each version whose predecessor is retained. SaveChangeSet is an action of Iavl.tla (applied as one version; removal of a missing key and a dirty tree are errors). At reopen/end the extracted sets are replayed into an empty store and every version's contents - and hashes while TLC marked the history as normal form - are compared.",
   note="Whether endVersion is inclusive is not judged (doc comment says exclusive, loop is inclusive; the property does not say)."),

 "C07": dict(technique="TLA+ label machine of the fast index (IavlStore.tla) model-checked for coherence (P5); indexed reads and the raw index/label of the real library compared with spec after every step of TLC behaviours; TLC counter-examples replayed on the code",
   text="IavlStore.tla models the persisted index, its label and the uncommitted overlay as the code maintains them (build from the loaded version, label, commit of additions/removals, invalidation on rollback, import). TLC checks on a bounded instance, for every sequence of opens with independent index on/off and load target, that every read that consults the index equals the tree walk (P5) and that after a commit/open the index describes the latest version; the only admitted deviation is the listed finding F-C07a (ghost `stale`). The same module generates behaviours; after every step all indexed reads (Get, GetVersioned, Iterate/Iterator of the working state incl. uncommitted writes/removals and of the latest version) are compared with the spec tree, and the raw f-entries and label with the label machine. Counter-examples TLC finds on the as-found variant (FixLvfoLabel = FALSE) are replayed on the real code (that is how C07b was reproduced and repaired).",
   note="Known finding F-C07a (index built from an older loaded version) is tolerated only in states where the specification's ghost says the index is stale, and only for indexed reads."),
 "C12": dict(technique="storage as a function of the logical state (Disk in IavlStore.tla); raw store of the real library decoded by an independent decoder and compared with TLC's expected entry set after every step",
   text="IavlStore.tla defines Disk(saved, first, latest): the exact set of entries of the node key space - every node reachable from a retained version under its key (version, nonce), re-keyed (v,0) roots, empty and reference root markers - and TLC checks that keys are unique and (T5) that the transcribed orphan diff equals the set difference of node sets. After every step of crash-free TLC behaviours with synchronous pruning the harness scans the raw store, decodes every entry with an independent decoder and compares with Disk: a missing entry is a loss, an extra one a leak; the persisted fast index must hold exactly the pairs (and versions) the label machine predicts.",
   note="Nonces are compared exactly (the specification reproduces the pre-order nonce assignment); a child reference / root reference to a re-keyed root may carry nonce 0 or 1."),
}

NA = {}

def main():
    props = [json.loads(l) for l in open('/verif/properties.jsonl')]
    commits = subprocess.run(['git','-C','/repo','log','--format=%h %s'],capture_output=True,text=True).stdout.splitlines()
    hooks = [c.split()[0] for c in commits if c.split(' ',1)[1].startswith('verif:')]
    m = {"version": 1,
      "setup_cmd": "cd /verif/harness && GOFLAGS=-mod=mod GOPROXY=off GOSUMDB=off GOTOOLCHAIN=local go build -tags verif -o /dev/null ./cmd/vcheck",
      "hooks": {"guard": "verif", "enable": "go build -tags verif (the harness module replaces github.com/cosmos/iavl with /repo)",
                "baseline_off_cmd": "for m in . cmd cmd/legacydump v2 v2/migrate; do (cd /repo/$m && go test -mod=mod -vet=off -count=1 -timeout 25m ./...); done",
                "source_commits": hooks, "add_only": True},
      "engines": [{"name": "tlc-iavl", "path": "/verif/spec", "serves_properties": sorted(CHECKS),
                   "kind_free_text": "TLA+ specification family (IAVLTree, Iavl, ...) checked and simulated with TLC 1.8; behaviours replayed on the real library by /verif/harness (Go)"}],
      "checks": [], "notes": "Approach, per-property design, fixes and known findings: /verif/DESIGN.md. Known findings: /verif/known_findings.json.",
      "not_applicable": []}
    for p in props:
        pid = p['id']
        if pid in CHECKS:
            c = CHECKS[pid]
            m['checks'].append({"property_id": pid, "quick_cmd": f"./check {pid} quick", "thorough_cmd": f"./check {pid} thorough",
              "evidence_file": f"/verif/evidence/{pid}.json", "replay_cmd_template": f"./check {pid} --replay {{path}}", "engine": "tlc-iavl",
              "level_claimed": {"category": "model_checking", "text": c['text'], "design_ref": f"DESIGN.md section 8 ({pid})"},
              "level_note": c['note'], "technique": c['technique']})
        else:
            m['not_applicable'].append({"property_id": pid, "reason": NA.get(pid, "check not built yet (implementation in progress, see DESIGN.md section 13); not claimed")})
    json.dump(m, open('/verif/MANIFEST.json', 'w'), indent=1)
    print(len(m['checks']), 'checks,', len(m['not_applicable']), 'not applicable')

main()
