// legacygen writes a database in the legacy (pre-1.0, hash-keyed) node format with the LEGACY
// library (github.com/cosmos/iavl v0.20.0 from the module cache). It replays the legacy phase of a
// behaviour generated from IavlLegacy.tla and records, for every version, the root hash and the
// contents the legacy library reports.
//
// usage: legacygen <dbdir> <job.json> <record.json>
package main

import (
	"encoding/hex"
	"encoding/json"
	"fmt"
	"os"

	dbm "github.com/cometbft/cometbft-db"
	"github.com/cosmos/iavl"
)

type Op struct {
	Op string `json:"op"` // set rm save delversion
	K  string `json:"k"`  // hex
	V  string `json:"v"`
	N  int64  `json:"n"`
}

type Job struct {
	Fast bool `json:"fast"`
	Ops  []Op `json:"ops"`
}

type VersionRec struct {
	Ver   int64       `json:"ver"`
	Hash  string      `json:"hash"`
	Pairs [][2]string `json:"pairs"`
}

func unhex(s string) []byte {
	b, err := hex.DecodeString(s)
	if err != nil {
		panic(err)
	}
	if b == nil {
		b = []byte{}
	}
	return b
}

func main() {
	dir, jobFile, recFile := os.Args[1], os.Args[2], os.Args[3]
	bts, err := os.ReadFile(jobFile)
	if err != nil {
		panic(err)
	}
	var job Job
	if err := json.Unmarshal(bts, &job); err != nil {
		panic(err)
	}
	db, err := dbm.NewDB("test", dbm.GoLevelDBBackend, dir)
	if err != nil {
		panic(err)
	}
	tree, err := iavl.NewMutableTreeWithOpts(db, 100, nil, !job.Fast)
	if err != nil {
		panic(err)
	}
	if _, err := tree.Load(); err != nil {
		panic(err)
	}
	recs := map[int64]*VersionRec{}
	for _, op := range job.Ops {
		switch op.Op {
		case "set":
			if _, err := tree.Set(unhex(op.K), unhex(op.V)); err != nil {
				panic(err)
			}
		case "rm":
			if _, _, err := tree.Remove(unhex(op.K)); err != nil {
				panic(err)
			}
		case "save":
			h, v, err := tree.SaveVersion()
			if err != nil {
				panic(err)
			}
			rec := &VersionRec{Ver: v, Hash: hex.EncodeToString(h)}
			it, err := tree.GetImmutable(v)
			if err != nil {
				panic(err)
			}
			_, err = it.Iterate(func(k, val []byte) bool {
				rec.Pairs = append(rec.Pairs, [2]string{hex.EncodeToString(k), hex.EncodeToString(val)})
				return false
			})
			if err != nil {
				panic(err)
			}
			recs[v] = rec
		case "delversion":
			if err := tree.DeleteVersion(op.N); err != nil {
				panic(fmt.Sprintf("legacy DeleteVersion(%d): %v", op.N, err))
			}
			delete(recs, op.N)
		}
	}
	if err := db.Close(); err != nil {
		panic(err)
	}
	var out []*VersionRec
	for _, r := range recs {
		out = append(out, r)
	}
	b, _ := json.Marshal(out)
	if err := os.WriteFile(recFile, b, 0o644); err != nil {
		panic(err)
	}
}
