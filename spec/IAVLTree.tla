------------------------------ MODULE IAVLTree ------------------------------
(***************************************************************************)
(* The IAVL+ tree algorithm of cosmos/iavl (v1: mutable_tree.go, node.go,  *)
(* iterator.go, diff.go, nodedb.go; v2 computes the same tree), written as *)
(* pure operators on structural trees.                                     *)
(*                                                                         *)
(* A tree is Nil, a leaf  [h=0, sz=1, k, v, ver, id]  or an inner node     *)
(* [h, sz, k, l, r, ver, id].  ver = 0 marks a node that is not persisted  *)
(* yet (nodeKey == nil in the code), id is the nonce of the node key.      *)
(* Keys and values are integers: only the ORDER of keys matters to the     *)
(* algorithm, the harness maps them to byte strings with order-preserving  *)
(* palettes.  Value 0 stands for the empty byte string.                    *)
(*                                                                         *)
(* The operators follow the code line by line because the root hash        *)
(* commits to the result (shape, heights, sizes, node versions).  Next to  *)
(* each algorithm stands its definition (Contents, RangeOf, set            *)
(* difference ...) and the theorems T1-T8 below relate the two; TLC        *)
(* checks them on every tree of the bounded instances (TreeTheorems.tla).  *)
(***************************************************************************)
EXTENDS Integers, Sequences, FiniteSets, TLC

Max(a, b) == IF a >= b THEN a ELSE b

Nil == [nil |-> TRUE]
IsNil(n) == "nil" \in DOMAIN n
IsLeaf(n) == n.h = 0

Leaf(k, v)  == [h |-> 0, sz |-> 1, k |-> k, v |-> v, ver |-> 0, id |-> 0]
\* a fresh inner node (recursiveSetLeaf / a clone whose height and size were recomputed)
Mk(k, l, r) == [h |-> Max(l.h, r.h) + 1, sz |-> l.sz + r.sz, k |-> k, l |-> l, r |-> r, ver |-> 0, id |-> 0]
\* node.clone on the update path: height and size are kept as they are
Cl(n, l, r) == [h |-> n.h, sz |-> n.sz, k |-> n.k, l |-> l, r |-> r, ver |-> 0, id |-> 0]

Bal(n)  == n.l.h - n.r.h
RotR(n) == Mk(n.l.k, n.l.l, Mk(n.k, n.l.r, n.r))        \* rotateRight: two new nodes
RotL(n) == Mk(n.r.k, Mk(n.k, n.l, n.r.l), n.r.r)        \* rotateLeft

\* MutableTree.balance with the tie-breaking of the code (>= 0, <= 0)
Balance(n) ==
  IF Bal(n) > 1 THEN
       IF Bal(n.l) >= 0 THEN RotR(n) ELSE RotR(Mk(n.k, RotL(n.l), n.r))
  ELSE IF Bal(n) < -1 THEN
       IF Bal(n.r) <= 0 THEN RotL(n) ELSE RotL(Mk(n.k, n.l, RotR(n.r)))
  ELSE n

\* recursiveSet / recursiveSetLeaf.  Returns [t, upd].
RECURSIVE Ins(_, _, _)
Ins(n, k, v) ==
  IF IsLeaf(n) THEN
     IF k < n.k THEN [t |-> Mk(n.k, Leaf(k, v), n), upd |-> FALSE]
     ELSE IF k > n.k THEN [t |-> Mk(k, n, Leaf(k, v)), upd |-> FALSE]
     ELSE [t |-> Leaf(k, v), upd |-> TRUE]
  ELSE IF k < n.k THEN
     LET r == Ins(n.l, k, v) IN
       IF r.upd THEN [t |-> Cl(n, r.t, n.r), upd |-> TRUE]
       ELSE [t |-> Balance(Mk(n.k, r.t, n.r)), upd |-> FALSE]
  ELSE
     LET r == Ins(n.r, k, v) IN
       IF r.upd THEN [t |-> Cl(n, n.l, r.t), upd |-> TRUE]
       ELSE [t |-> Balance(Mk(n.k, n.l, r.t)), upd |-> FALSE]

\* MutableTree.set on a possibly empty tree
SetT(t, k, v) == IF IsNil(t) THEN [t |-> Leaf(k, v), upd |-> FALSE] ELSE Ins(t, k, v)

\* recursiveRemove.  Returns [t, nk, rem, val]; nk = 0 stands for "no new key".
RECURSIVE Rem(_, _)
Rem(n, k) ==
  IF IsLeaf(n) THEN
     IF k = n.k THEN [t |-> Nil, nk |-> 0, rem |-> TRUE, val |-> n.v]
     ELSE [t |-> n, nk |-> 0, rem |-> FALSE, val |-> 0]
  ELSE IF k < n.k THEN
     LET r == Rem(n.l, k) IN
       IF ~r.rem THEN [t |-> n, nk |-> 0, rem |-> FALSE, val |-> 0]
       ELSE IF IsNil(r.t) THEN [t |-> n.r, nk |-> n.k, rem |-> TRUE, val |-> r.val]
       ELSE [t |-> Balance(Mk(n.k, r.t, n.r)), nk |-> r.nk, rem |-> TRUE, val |-> r.val]
  ELSE
     LET r == Rem(n.r, k) IN
       IF ~r.rem THEN [t |-> n, nk |-> 0, rem |-> FALSE, val |-> 0]
       ELSE IF IsNil(r.t) THEN [t |-> n.l, nk |-> 0, rem |-> TRUE, val |-> r.val]
       ELSE [t |-> Balance(Mk(IF r.nk # 0 THEN r.nk ELSE n.k, n.l, r.t)), nk |-> 0, rem |-> TRUE, val |-> r.val]

\* MutableTree.Remove on a possibly empty tree
RemT(t, k) == IF IsNil(t) THEN [t |-> Nil, nk |-> 0, rem |-> FALSE, val |-> 0] ELSE Rem(t, k)

\* saveNewNodes: pre-order nonces from 1 over the unsaved nodes, node version = committed version
RECURSIVE St(_, _, _)
St(n, ver, next) ==
  IF n.ver # 0 THEN [t |-> n, next |-> next]
  ELSE IF IsLeaf(n) THEN [t |-> [n EXCEPT !.ver = ver, !.id = next], next |-> next + 1]
  ELSE LET a == St(n.l, ver, next + 1)
           b == St(n.r, ver, a.next)
       IN [t |-> [n EXCEPT !.ver = ver, !.id = next, !.l = a.t, !.r = b.t], next |-> b.next]
Stamp(t, ver) == IF IsNil(t) THEN Nil ELSE St(t, ver, 1).t

(***************************************************************************)
(* Definitions (what the algorithms must compute)                          *)
(***************************************************************************)
\* in-order sequence of the leaves as <<k, v>> pairs
RECURSIVE Pairs(_)
Pairs(t) == IF IsNil(t) THEN <<>> ELSE IF IsLeaf(t) THEN << <<t.k, t.v>> >> ELSE Pairs(t.l) \o Pairs(t.r)

RECURSIVE KeysOf(_)
KeysOf(t) == IF IsNil(t) THEN {} ELSE IF IsLeaf(t) THEN {t.k} ELSE KeysOf(t.l) \cup KeysOf(t.r)

\* the value of key k, or Absent (a value outside the value domain)
Absent == -1
RECURSIVE Lookup(_, _)
Lookup(t, k) == IF IsNil(t) THEN Absent
                ELSE IF IsLeaf(t) THEN (IF t.k = k THEN t.v ELSE Absent)
                ELSE IF k < t.k THEN Lookup(t.l, k) ELSE Lookup(t.r, k)

\* Node.get: [idx, val]; idx is the rank of the key, or of the next key if absent
RECURSIVE GetIdx(_, _)
GetIdx(n, k) ==
  IF IsLeaf(n) THEN
      IF n.k < k THEN [idx |-> 1, val |-> Absent]
      ELSE IF n.k > k THEN [idx |-> 0, val |-> Absent]
      ELSE [idx |-> 0, val |-> n.v]
  ELSE IF k < n.k THEN GetIdx(n.l, k)
  ELSE LET r == GetIdx(n.r, k) IN [idx |-> r.idx + n.sz - n.r.sz, val |-> r.val]
GetWithIndex(t, k) == IF IsNil(t) THEN [idx |-> 0, val |-> Absent] ELSE GetIdx(t, k)

\* Node.getByIndex: <<k, v>> or <<>>
RECURSIVE ByIdx(_, _)
ByIdx(n, i) ==
  IF IsLeaf(n) THEN (IF i = 0 THEN <<n.k, n.v>> ELSE <<>>)
  ELSE IF i < n.l.sz THEN ByIdx(n.l, i) ELSE ByIdx(n.r, i - n.l.sz)
GetByIndex(t, i) == IF IsNil(t) THEN <<>> ELSE ByIdx(t, i)

Size(t)   == IF IsNil(t) THEN 0 ELSE t.sz
Height(t) == IF IsNil(t) THEN 0 ELSE t.h

\* all nodes of a tree as a set of records without children (identity = version, nonce)
RECURSIVE Nodes(_)
Nodes(t) == IF IsNil(t) THEN {}
            ELSE IF IsLeaf(t) THEN {[ver |-> t.ver, id |-> t.id]}
            ELSE {[ver |-> t.ver, id |-> t.id]} \cup Nodes(t.l) \cup Nodes(t.r)

RECURSIVE MinKey(_)
MinKey(t) == IF IsLeaf(t) THEN t.k ELSE MinKey(t.l)
RECURSIVE MaxKey(_)
MaxKey(t) == IF IsLeaf(t) THEN t.k ELSE MaxKey(t.r)

\* T2: what every reachable tree satisfies
RECURSIVE WellFormed(_)
WellFormed(t) ==
  IF IsNil(t) THEN TRUE
  ELSE IF IsLeaf(t) THEN t.sz = 1
  ELSE /\ WellFormed(t.l) /\ WellFormed(t.r)
       /\ t.h = Max(t.l.h, t.r.h) + 1
       /\ t.sz = t.l.sz + t.r.sz
       /\ Bal(t) \in {-1, 0, 1}
       /\ MaxKey(t.l) < t.k
       /\ t.k = MinKey(t.r)                       \* routing key = smallest key of the right subtree
       /\ (t.ver # 0 => t.l.ver # 0 /\ t.r.ver # 0 /\ t.l.ver <= t.ver /\ t.r.ver <= t.ver)

\* a stamped tree has no unsaved node and unique (ver, id) pairs
RECURSIVE NodeSeq(_)
NodeSeq(t) == IF IsNil(t) THEN <<>> ELSE IF IsLeaf(t) THEN <<t>> ELSE <<t>> \o NodeSeq(t.l) \o NodeSeq(t.r)
Persisted(t) == LET s == NodeSeq(t) IN
  /\ \A i \in 1..Len(s) : s[i].ver > 0 /\ s[i].id >= 0
  /\ \A i, j \in 1..Len(s) : (s[i].ver = s[j].ver /\ s[i].id = s[j].id) => s[i] = s[j]

\* the hash of a node commits to everything but the nonce and the routing key of inner nodes
RECURSIVE Strip(_)
Strip(n) == IF IsNil(n) THEN Nil
            ELSE IF IsLeaf(n) THEN [h |-> 0, k |-> n.k, v |-> n.v, ver |-> n.ver]
            ELSE [h |-> n.h, sz |-> n.sz, ver |-> n.ver, l |-> Strip(n.l), r |-> Strip(n.r)]
\* equality of root hashes (SHA-256 assumed collision free)
SameHash(a, b) == Strip(a) = Strip(b)

(***************************************************************************)
(* Range traversal: traversal.next of iterator.go (explicit stack)         *)
(***************************************************************************)
None == -1                                   \* a nil bound
Push(s, x) == Append(s, x)
Top(s) == s[Len(s)]
Pop(s) == SubSeq(s, 1, Len(s) - 1)

RECURSIVE TravSeq(_, _, _, _, _, _, _)
TravSeq(stack, acc, s, e, asc, incl, post) ==
  IF Len(stack) = 0 THEN acc
  ELSE LET top == Top(stack)  rest == Pop(stack)  n == top.n IN
    IF ~top.d THEN TravSeq(rest, Append(acc, n), s, e, asc, incl, post)
    ELSE
      LET afterStart == s = None \/ s < n.k
          startOrAfter == afterStart \/ s = n.k
          beforeEnd0 == e = None \/ n.k < e
          beforeEnd == IF incl THEN beforeEnd0 \/ n.k = e ELSE beforeEnd0
          emit == ~IsLeaf(n) \/ (startOrAfter /\ beforeEnd)
          st1 == IF post /\ emit THEN Push(rest, [n |-> n, d |-> FALSE]) ELSE rest
          st2 == IF IsLeaf(n) THEN st1
                 ELSE IF asc THEN
                    LET a == IF beforeEnd THEN Push(st1, [n |-> n.r, d |-> TRUE]) ELSE st1
                    IN IF afterStart THEN Push(a, [n |-> n.l, d |-> TRUE]) ELSE a
                 ELSE
                    LET a == IF afterStart THEN Push(st1, [n |-> n.l, d |-> TRUE]) ELSE st1
                    IN IF beforeEnd THEN Push(a, [n |-> n.r, d |-> TRUE]) ELSE a
      IN IF ~post /\ emit THEN TravSeq(st2, Append(acc, n), s, e, asc, incl, post)
         ELSE TravSeq(st2, acc, s, e, asc, incl, post)
Trav(t, s, e, asc, incl, post) ==
  IF IsNil(t) THEN <<>> ELSE TravSeq(<<[n |-> t, d |-> TRUE]>>, <<>>, s, e, asc, incl, post)

SelectLeaves(sq) == SelectSeq(sq, IsLeaf)
\* what an iteration over [s, e) (or [s, e]) must yield
IterRange(t, s, e, asc, incl) ==
  LET ns == SelectLeaves(Trav(t, s, e, asc, incl, FALSE)) IN [i \in 1..Len(ns) |-> <<ns[i].k, ns[i].v>>]

Reverse(sq) == [i \in 1..Len(sq) |-> sq[Len(sq) + 1 - i]]
InRange(k, s, e, incl) == (s = None \/ s <= k) /\ (e = None \/ k < e \/ (incl /\ k = e))
RangeOf(t, s, e, asc, incl) ==
  LET ps == Pairs(t)
      InR(p) == InRange(p[1], s, e, incl)
      f == SelectSeq(ps, InR)
  IN IF asc THEN f ELSE Reverse(f)

\* Export order: post-order over all nodes, ascending (traversePost)
ExportSeq(t) == Trav(t, None, None, TRUE, FALSE, TRUE)

(***************************************************************************)
(* NodeIterator (pre-order with subtree skipping), orphan diff and         *)
(* change-set diff                                                         *)
(***************************************************************************)
NIinit(t) == IF IsNil(t) THEN <<>> ELSE <<t>>
NInext(stk, skip) == LET n == Top(stk) rest == Pop(stk) IN
                     IF skip \/ IsLeaf(n) THEN rest ELSE Push(Push(rest, n.r), n.l)

\* traverseOrphansWithRootkeyCache: nodes of prev that cur no longer uses, in pre-order of prev
RECURSIVE AdvCur(_, _)
AdvCur(c, pv) == IF Len(c) = 0 THEN [c |-> c, org |-> Nil]
                 ELSE LET n == Top(c) IN
                      IF n.ver <= pv THEN [c |-> NInext(c, TRUE), org |-> n] ELSE AdvCur(NInext(c, FALSE), pv)
RECURSIVE OrphLoop(_, _, _, _, _)
OrphLoop(p, c, org, pv, out) ==
  IF Len(p) = 0 THEN out
  ELSE LET a == IF IsNil(org) THEN AdvCur(c, pv) ELSE [c |-> c, org |-> org]
           pn == Top(p) IN
       IF ~IsNil(a.org) /\ Strip(pn) = Strip(a.org) THEN OrphLoop(NInext(p, TRUE), a.c, Nil, pv, out)
       ELSE OrphLoop(NInext(p, FALSE), a.c, a.org, pv, Append(out, pn))
Orphans(prev, cur, pv) == OrphLoop(NIinit(prev), NIinit(cur), Nil, pv, <<>>)

\* extractStateChanges of diff.go: sequence of [k, v, del]
RECURSIVE AdvShared(_, _, _)
AdvShared(c, pv, nl) == IF Len(c) = 0 THEN [c |-> c, shared |-> Nil, nl |-> nl]
   ELSE LET n == Top(c) sh == n.ver <= pv IN
        IF sh THEN [c |-> NInext(c, TRUE), shared |-> n, nl |-> nl]
        ELSE AdvShared(NInext(c, FALSE), pv, IF IsLeaf(n) THEN Append(nl, n) ELSE nl)
KV(n)  == [k |-> n.k, v |-> n.v, del |-> FALSE]
Del(n) == [k |-> n.k, v |-> 0, del |-> TRUE]
Consume(nl, out) == out \o [i \in 1..Len(nl) |-> KV(nl[i])]
RECURSIVE AddOrph(_, _, _)
AddOrph(o, nl, out) ==
  IF Len(nl) = 0 THEN [nl |-> nl, out |-> Append(out, Del(o))]
  ELSE LET x == Head(nl) IN
       IF o.k > x.k THEN AddOrph(o, Tail(nl), Append(out, KV(x)))
       ELSE IF o.k < x.k THEN [nl |-> nl, out |-> Append(out, Del(o))]
       ELSE [nl |-> Tail(nl), out |-> Append(out, KV(x))]
RECURSIVE ChLoop(_, _, _, _, _, _)
ChLoop(p, c, shared, nl, pv, out) ==
  IF Len(p) = 0 THEN Consume(nl, out)
  ELSE LET n == Top(p)
           sh == ~IsNil(shared) /\ Strip(n) = Strip(shared) IN
       IF sh THEN LET out2 == Consume(nl, out)  a == AdvShared(c, pv, <<>>) IN
                  ChLoop(NInext(p, TRUE), a.c, a.shared, a.nl, pv, out2)
       ELSE IF IsLeaf(n) THEN LET r == AddOrph(n, nl, out) IN ChLoop(NInext(p, FALSE), c, shared, r.nl, pv, r.out)
       ELSE ChLoop(NInext(p, FALSE), c, shared, nl, pv, out)
Changes(prev, cur, pv) ==
  LET a == AdvShared(NIinit(cur), pv, <<>>) IN ChLoop(NIinit(prev), a.c, a.shared, a.nl, pv, <<>>)

\* the definition: keys whose leaf was written in version pv+1 and that are present in cur,
\* plus keys of prev absent in cur; ascending, once per key
RECURSIVE LeavesOf(_)
LeavesOf(t) == IF IsNil(t) THEN <<>> ELSE IF IsLeaf(t) THEN <<t>> ELSE LeavesOf(t.l) \o LeavesOf(t.r)
NetChanges(prev, cur, pv) ==
  LET cl == LeavesOf(cur)  pl == LeavesOf(prev)
      ks == {cl[i].k : i \in {j \in 1..Len(cl) : cl[j].ver > pv}}
            \cup {pl[i].k : i \in {j \in 1..Len(pl) : Lookup(cur, pl[j].k) = Absent}}
      Sorted == CHOOSE sq \in [1..Cardinality(ks) -> ks] :
                   /\ \A i, j \in 1..Cardinality(ks) : i < j => sq[i] < sq[j]
  IN [i \in 1..Cardinality(ks) |->
        IF Lookup(cur, Sorted[i]) = Absent THEN [k |-> Sorted[i], v |-> 0, del |-> TRUE]
        ELSE [k |-> Sorted[i], v |-> Lookup(cur, Sorted[i]), del |-> FALSE]]

(***************************************************************************)
(* Proof shapes (proof.go, proof_ics23.go)                                 *)
(***************************************************************************)
\* path from the root to the leaf where the search for k ends: sequence (top-down) of
\* [h, sz, ver, left] (left = TRUE: the search went left, the sibling is the right child)
RECURSIVE PathTo(_, _)
PathTo(n, k) == IF IsLeaf(n) THEN <<>>
                ELSE IF k < n.k THEN <<[h |-> n.h, sz |-> n.sz, ver |-> n.ver, left |-> TRUE]>> \o PathTo(n.l, k)
                ELSE <<[h |-> n.h, sz |-> n.sz, ver |-> n.ver, left |-> FALSE]>> \o PathTo(n.r, k)
\* GetNonMembershipProof: neighbours by rank; 0 stands for "none"
Neighbours(t, k) ==
  LET g == GetWithIndex(t, k)
      lft == IF g.idx >= 1 THEN GetByIndex(t, g.idx - 1) ELSE <<>>
      rgt == IF g.idx <= Size(t) - 1 THEN GetByIndex(t, g.idx) ELSE <<>>
  IN [left |-> IF lft = <<>> THEN 0 ELSE lft[1], right |-> IF rgt = <<>> THEN 0 ELSE rgt[1]]

(***************************************************************************)
(* Import (import.go): rebuild from the post-order stream; nonces are      *)
(* renumbered per node version starting at 2, the root gets nonce 1        *)
(***************************************************************************)
\* ctr: function version -> last nonce handed out
RECURSIVE Imp(_, _)
Imp(n, ctr) ==
  IF IsLeaf(n) THEN
     LET c == IF n.ver \in DOMAIN ctr THEN ctr[n.ver] + 1 ELSE 1 IN
     [t |-> [n EXCEPT !.id = c + 1], ctr |-> (n.ver :> c) @@ ctr]
  ELSE LET a == Imp(n.l, ctr)
           b == Imp(n.r, a.ctr)
           c == IF n.ver \in DOMAIN b.ctr THEN b.ctr[n.ver] + 1 ELSE 1 IN
       [t |-> [n EXCEPT !.id = c + 1, !.l = a.t, !.r = b.t], ctr |-> (n.ver :> c) @@ b.ctr]
\* a root older than the imported version is stored the way pruning stores a root that outlives
\* its version: nonce 0 (so that the root search does not take its version for an available one)
ImportTree(t, v) == IF IsNil(t) THEN Nil ELSE [Imp(t, <<>>).t EXCEPT !.id = IF t.ver < v THEN 0 ELSE 1]

=============================================================================
