----------------------------- MODULE MCNodeCodec -----------------------------
EXTENDS NodeCodec
VARIABLE x
Init == x = 0
Next == x' = x
Spec == Init /\ [][Next]_x
=============================================================================
