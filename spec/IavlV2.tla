------------------------------- MODULE IavlV2 -------------------------------
(***************************************************************************)
(* The SQLite-backed v2 tree (v2/tree.go) on top of the same tree algebra. *)
(* v2 mutates nodes in place, but the VALUE of its tree after a commit is  *)
(* the same term as v1's: every node touched in a version carries that     *)
(* version.  Hence the root hashes of v1, v2 and the specification must be *)
(* equal for the same per-version write sets (C19).                        *)
(*                                                                         *)
(* v2 requires its input in normal form: at most one write or removal per  *)
(* key and version.  Persistence (C20): a version is a CHECKPOINT (the     *)
(* whole tree is written) if it is version 1 or at least `ci` versions     *)
(* after the last checkpoint; every version writes its leaf change log.    *)
(* LoadVersion(v) = root of the nearest checkpoint <= v plus a replay of   *)
(* the change log up to v.  DeleteVersionsTo(n) keeps the latest version   *)
(* and every version at or above the last checkpoint not after n loadable. *)
(* Options that must not matter (height filter, eviction depth, sharding)  *)
(* do not occur here.                                                      *)
(***************************************************************************)
EXTENDS Iavl

VARIABLES ckpts,     \* set of checkpoint versions
          ci,        \* checkpoint interval of this store
          pruned,    \* highest n given to DeleteVersionsTo so far (0: none)
          v2hist     \* parallel history: per step [ckpt, ckpts, loadable]
v2vars == <<ckpts, ci, pruned, v2hist>>
allvars == <<vars, v2vars>>

CONSTANT CIs         \* candidate checkpoint intervals

Last(S) == IF S = {} THEN 0 ELSE CHOOSE x \in S : \A y \in S : y <= x
FindPrevious(S, v) == Last({x \in S : x <= v})
\* versions that must load: everything if nothing was pruned, else the latest version and every
\* version at or above the last checkpoint not after `pruned`
Loadable == IF latest = 0 THEN {}
            ELSE IF pruned = 0 THEN 1..latest
            ELSE {latest} \cup {v \in 1..latest : v >= FindPrevious(ckpts, pruned)}

V2Log == v2hist' = IF Record THEN Append(v2hist, [ckpts |-> ckpts', pruned |-> pruned', loadable |-> Loadable', ci |-> ci]) ELSE v2hist
\* Loadable' refers to primed variables through the definition:
LoadableP == IF latest' = 0 THEN {}
             ELSE IF pruned' = 0 THEN 1..latest'
             ELSE {latest'} \cup {v \in 1..latest' : v >= FindPrevious(ckpts', pruned')}
V2LogP == v2hist' = IF Record THEN Append(v2hist, [ckpts |-> ckpts', pruned |-> pruned', loadable |-> LoadableP, ci |-> ci]) ELSE v2hist

V2Init == /\ Init /\ iv = 0 /\ ckpts = {} /\ ci \in CIs /\ pruned = 0
          /\ v2hist = (IF Record THEN <<[ckpts |-> {}, pruned |-> 0, loadable |-> {}, ci |-> ci]>> ELSE <<>>)

V2Set(k, v) == k \notin Touched /\ Set(k, v) /\ UNCHANGED <<ckpts, ci, pruned>> /\ V2LogP
\* a removal of a key that is not there is a call too: it changes nothing, but the key counts as touched
V2Remove(k) == k \notin Touched /\ Remove(k) /\ UNCHANGED <<ckpts, ci, pruned>> /\ V2LogP
\* v2 keeps every version's root; first stays 1 in the logical layer, pruning only affects Loadable
V2Save ==
  /\ version = latest                       \* v2 always commits on top of the latest version
  /\ SaveVersion
  /\ ckpts' = IF latest + 1 = 1 \/ (latest + 1) - Last(ckpts) >= ci THEN ckpts \cup {latest + 1} ELSE ckpts
  /\ UNCHANGED <<ci, pruned>> /\ V2LogP
\* close the database, open it again, LoadVersion(latest); the harness also loads every loadable version
V2Reopen ==
  /\ latest > 0 /\ Reopen(TRUE) /\ UNCHANGED <<ckpts, ci, pruned>> /\ V2LogP
V2DelTo(n) ==
  /\ n >= 1 /\ n < latest /\ n > pruned
  /\ pruned' = n
  /\ UNCHANGED <<work, saved, first, latest, version, fast, iv, nops, wm, vm, wlog, pins, done, ckpts, ci>>
  /\ Log("v2delto", [n |-> n], [err |-> FALSE])
  /\ V2LogP

V2Finish == /\ Len(hist) >= D /\ ~done /\ done' = TRUE
            /\ UNCHANGED <<work, saved, first, latest, version, fast, iv, nops, wm, vm, wlog, pins, hist, v2vars>>
            /\ PrintT(<<"TRACE", ToJson([h |-> hist, v2 |-> v2hist])>>)

V2NextSim ==
  IF Len(hist) >= D THEN V2Finish
  ELSE LET c == Classes[RandomElement(1..Len(Classes))] IN
    CASE c = "set"    -> IF Keys \ Touched = {} THEN V2Save ELSE \E k \in Keys \ Touched, v \in Vals : V2Set(k, v)
      [] c = "setnew" -> LET fresh == (Keys \ Touched) \ KeysOf(work) IN
                         IF fresh = {} THEN V2Save ELSE \E k \in fresh, v \in Vals : V2Set(k, v)
      [] c = "rmabsent" -> LET gone == (Keys \ Touched) \ KeysOf(work) IN
                         IF gone = {} THEN V2Save ELSE \E k \in gone : V2Remove(k)
      [] c = "rm"     -> IF KeysOf(work) \ Touched = {} THEN V2Save ELSE \E k \in KeysOf(work) \ Touched : V2Remove(k)
      [] c = "save"   -> V2Save
      [] c = "reopen" -> IF latest = 0 \/ nops > 0 THEN V2Save ELSE V2Reopen
      [] c = "delto"  -> IF nops > 0 \/ ~(\E n \in 1..(latest - 1) : n > pruned) THEN V2Save
                         ELSE \E n \in {x \in 1..(latest - 1) : x > pruned} : V2DelTo(n)
      [] OTHER        -> V2Save
V2SpecSim == V2Init /\ [][V2NextSim]_allvars

\* bounded exploration
V2NextB == \/ nops < MaxOps /\ \E k \in Keys, v \in Vals : V2Set(k, v)
           \/ nops < MaxOps /\ \E k \in Keys : V2Remove(k)
           \/ latest < MaxVer /\ V2Save
           \/ nops = 0 /\ V2Reopen
           \/ nops = 0 /\ \E n \in 1..MaxVer : V2DelTo(n)
V2SpecB == V2Init /\ [][V2NextB]_allvars
v2view == <<view, ckpts, ci, pruned>>

\* the latest version is always loadable; a checkpoint exists at or below every loadable version
InvLoadable == /\ (latest > 0 => latest \in Loadable)
               /\ \A v \in Loadable : FindPrevious(ckpts, v) >= 1
               /\ (latest > 0 => 1 \in ckpts)
\* checkpoints are at most ci apart
InvCkpts == \A v \in 1..latest : v - FindPrevious(ckpts, v) < ci \/ FindPrevious(ckpts, v) = 0
=============================================================================
