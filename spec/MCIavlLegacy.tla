---------------------------- MODULE MCIavlLegacy ----------------------------
EXTENDS IavlLegacy
SimClasses == <<"set", "save">>
LegacyCl == <<"set", "set", "set", "rm", "save", "save", "migrate">>
=============================================================================
