------------------------------ MODULE LRUCache ------------------------------
(***************************************************************************)
(* The node / fast-node cache of cosmos/iavl (package cache): a bounded     *)
(* map with least-recently-used eviction.  Options that must not matter to *)
(* any listed property include the cache size; this module states the      *)
(* contract the library relies on and is bound to the code by programs     *)
(* that TLC generates (every return value compared).                       *)
(*                                                                         *)
(* State: q, a sequence of [k, v] records, most recently used first.       *)
(*   Add(k, v)   present: the entry moves to the front, takes the new       *)
(*               value, the OLD value is returned; absent: pushed to the   *)
(*               front; if that exceeds Max the last entry is evicted and  *)
(*               returned (with Max = 0 that is the entry itself)          *)
(*   Get(k)      returns the value and moves the entry to the front        *)
(*   Has(k)      does not touch the order                                  *)
(*   Remove(k)   returns the removed value                                 *)
(***************************************************************************)
EXTENDS Integers, Sequences, FiniteSets, TLC, Json

CONSTANTS Keys, Vals, Max, D, Record

VARIABLES q, hist, done
vars == <<q, hist, done>>
None == -1

Idx(k) == IF \E i \in 1..Len(q) : q[i].k = k THEN CHOOSE i \in 1..Len(q) : q[i].k = k ELSE 0
Without(i) == [j \in 1..(Len(q) - 1) |-> IF j < i THEN q[j] ELSE q[j + 1]]
Log(op, k, v, ret) == hist' = IF Record THEN Append(hist, [op |-> op, k |-> k, v |-> v, ret |-> ret, len |-> Len(q')]) ELSE hist

Init == q = <<>> /\ hist = <<>> /\ done = FALSE

Add(k, v) ==
  LET i == Idx(k) IN
  IF i # 0 THEN /\ q' = <<[k |-> k, v |-> v]>> \o Without(i)
                /\ Log("add", k, v, [k |-> k, v |-> q[i].v])
  ELSE LET n == <<[k |-> k, v |-> v]>> \o q IN
       IF Len(n) > Max THEN /\ q' = SubSeq(n, 1, Len(n) - 1)
                            /\ Log("add", k, v, n[Len(n)])
       ELSE q' = n /\ Log("add", k, v, [k |-> None, v |-> None])
Get(k) ==
  LET i == Idx(k) IN
  IF i # 0 THEN q' = <<q[i]>> \o Without(i) /\ Log("get", k, None, q[i])
  ELSE q' = q /\ Log("get", k, None, [k |-> None, v |-> None])
Has(k) == q' = q /\ Log("has", k, None, [k |-> (IF Idx(k) # 0 THEN k ELSE None), v |-> None])
Remove(k) ==
  LET i == Idx(k) IN
  IF i # 0 THEN q' = Without(i) /\ Log("remove", k, None, q[i])
  ELSE q' = q /\ Log("remove", k, None, [k |-> None, v |-> None])

Finish == /\ Len(hist) >= D /\ ~done /\ done' = TRUE /\ UNCHANGED <<q, hist>>
          /\ PrintT(<<"TRACE", ToJson(hist)>>)
Step == \/ \E k \in Keys, v \in Vals : Add(k, v)
        \/ \E k \in Keys : Get(k) \/ Has(k) \/ Remove(k)
Next == (Record /\ Len(hist) >= D /\ Finish) \/ ((~Record \/ Len(hist) < D) /\ Step /\ UNCHANGED done)
Spec == Init /\ [][Next]_vars

Bounded == Len(q) <= Max
Unique  == \A i, j \in 1..Len(q) : q[i].k = q[j].k => i = j
\* the most recently added or read key is first, and is the last to be evicted by Max further additions
=============================================================================
