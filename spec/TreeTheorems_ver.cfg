SPECIFICATION Spec
CONSTANTS
  K = 3
  V = 2
  MaxVer = 3
  MaxOps = 3
INVARIANTS T2 T5 T6 T7a T7b
CHECK_DEADLOCK FALSE
