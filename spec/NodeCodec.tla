------------------------------ MODULE NodeCodec ------------------------------
(***************************************************************************)
(* The pinned on-disk format of cosmos/iavl v1 as pure operators on byte   *)
(* sequences (bytes are integers 0..255).                                  *)
(*                                                                         *)
(*   uvarint / varint (zig-zag)   little-endian base-128, at most 10 bytes *)
(*   bytes                        uvarint length + raw bytes               *)
(*   node  leaf : varint(0) varint(1) bytes(key) bytes(value)              *)
(*         inner: varint(height) varint(size) bytes(key) bytes(hash)       *)
(*                varint(mode) [child refs: varint(ver) varint(nonce) each,*)
(*                or bytes(32-byte hash) for a legacy child (mode bit)]    *)
(*   fast node  : varint(version) bytes(value)                             *)
(*   root marker: empty | 's' ver(8) nonce(4) | (old) 's' ver(8)           *)
(*   keys       : 's' ver(8 BE) nonce(4 BE), 'f' key, 'm' name             *)
(*                                                                         *)
(* Decoders are TOTAL: they return a record or Err, never fail to          *)
(* evaluate, so that TLC can serve as the independent decoder of raw       *)
(* store dumps (trace validation) and as the oracle for "is this input     *)
(* accepted" on mutated encodings.  TLC integers are 32 bit: a varint of   *)
(* more than 4 groups is represented by the token Big (its exact value is  *)
(* never needed: every quantity the store model compares is small, and     *)
(* the overflow rules depend on the group count only).                     *)
(***************************************************************************)
EXTENDS Integers, Sequences, FiniteSets, TLC

Err == [err |-> TRUE]
IsErr(x) == "err" \in DOMAIN x
Big == 1073741824      \* stands for "a value of 2^28 or more"

Pow128(n) == IF n = 0 THEN 1 ELSE IF n = 1 THEN 128 ELSE IF n = 2 THEN 16384 ELSE 2097152

\* binary.Uvarint on b starting at index i (1-based): [val, next] or Err.
\* Errors: buffer ends inside the number; more than 10 groups, or a 10th group > 1 (overflow).
RECURSIVE UvarintFrom(_, _, _, _)
UvarintFrom(b, i, n, acc) ==        \* n = groups consumed so far
  IF i > Len(b) THEN Err
  ELSE IF n = 10 THEN Err           \* the library reads at most 10 bytes (MaxVarintLen64)
  ELSE LET x == b[i]
           g == IF x < 128 THEN x ELSE x - 128            \* the 7 payload bits
           acc2 == IF acc = Big THEN Big
                   ELSE IF n >= 4 THEN (IF g = 0 THEN acc ELSE Big)   \* bits at or above 2^28
                   ELSE acc + g * Pow128(n) IN
       IF x < 128 THEN (IF n = 9 /\ x > 1 THEN Err ELSE [val |-> acc2, next |-> i + 1])
       ELSE UvarintFrom(b, i + 1, n + 1, acc2)
DecUvarint(b, i) == UvarintFrom(b, i, 0, 0)

\* zig-zag: even u -> u/2, odd u -> -(u+1)/2
DecVarint(b, i) ==
  LET u == DecUvarint(b, i) IN
  IF IsErr(u) THEN Err
  ELSE IF u.val = Big THEN [val |-> Big, next |-> u.next]       \* magnitude unknown, sign lost: callers treat Big as out of range
  ELSE [val |-> IF u.val % 2 = 0 THEN u.val \div 2 ELSE -((u.val + 1) \div 2), next |-> u.next]

\* length-prefixed bytes: [val (a sequence), next] or Err
DecBytes(b, i) ==
  LET u == DecUvarint(b, i) IN
  IF IsErr(u) THEN Err
  ELSE IF u.val = Big THEN Err                                   \* longer than any buffer we handle
  ELSE IF u.next + u.val - 1 > Len(b) THEN Err
  ELSE [val |-> SubSeq(b, u.next, u.next + u.val - 1), next |-> u.next + u.val]

\* encoders (small values only)
RECURSIVE EncUvarint(_)
EncUvarint(u) == IF u < 128 THEN <<u>> ELSE <<128 + (u % 128)>> \o EncUvarint(u \div 128)
EncVarint(x) == EncUvarint(IF x >= 0 THEN 2 * x ELSE -2 * x - 1)
EncBytes(s) == EncUvarint(Len(s)) \o s

\* ---- nodes ----
InInt8(x)   == x # Big /\ x >= -128 /\ x <= 127
\* MakeNode: nk is known from the key; returns the decoded fields or Err
DecNode(b) ==
  LET h == DecVarint(b, 1) IN
  IF IsErr(h) \/ ~InInt8(h.val) THEN Err ELSE
  LET sz == DecVarint(b, h.next) IN
  IF IsErr(sz) THEN Err ELSE
  LET key == DecBytes(b, sz.next) IN
  IF IsErr(key) THEN Err ELSE
  IF h.val = 0 THEN
     LET v == DecBytes(b, key.next) IN
     IF IsErr(v) THEN Err
     ELSE [kind |-> "leaf", h |-> 0, sz |-> sz.val, key |-> key.val, val |-> v.val]
  ELSE
     LET hash == DecBytes(b, key.next) IN
     IF IsErr(hash) THEN Err ELSE
     LET mode == DecVarint(b, hash.next) IN
     IF IsErr(mode) \/ mode.val = Big \/ mode.val < 0 \/ mode.val > 3 THEN Err ELSE
     \* left child
     LET lres == IF mode.val % 2 = 1
                 THEN LET x == DecBytes(b, mode.next) IN
                      IF IsErr(x) THEN Err ELSE [ref |-> [legacy |-> x.val], next |-> x.next]
                 ELSE LET v == DecVarint(b, mode.next) IN
                      IF IsErr(v) THEN Err ELSE
                      LET n == DecVarint(b, v.next) IN
                      IF IsErr(n) \/ (n.val # Big /\ n.val < 0) THEN Err   \* nonce must fit uint32
                      ELSE [ref |-> [ver |-> v.val, id |-> n.val], next |-> n.next] IN
     IF IsErr(lres) THEN Err ELSE
     LET rres == IF mode.val >= 2
                 THEN LET x == DecBytes(b, lres.next) IN
                      IF IsErr(x) THEN Err ELSE [ref |-> [legacy |-> x.val], next |-> x.next]
                 ELSE LET v == DecVarint(b, lres.next) IN
                      IF IsErr(v) THEN Err ELSE
                      LET n == DecVarint(b, v.next) IN
                      IF IsErr(n) \/ (n.val # Big /\ n.val < 0) THEN Err
                      ELSE [ref |-> [ver |-> v.val, id |-> n.val], next |-> n.next] IN
     IF IsErr(rres) THEN Err
     \* a nonce of 2^28 or more may or may not fit uint32: the verdict is left open
     ELSE IF ("id" \in DOMAIN lres.ref /\ lres.ref.id = Big) \/ ("id" \in DOMAIN rres.ref /\ rres.ref.id = Big) THEN [unknown |-> TRUE]
     ELSE [kind |-> "inner", h |-> h.val, sz |-> sz.val, key |-> key.val, hash |-> hash.val, l |-> lres.ref, r |-> rres.ref]

EncLeaf(key, val) == EncVarint(0) \o EncVarint(1) \o EncBytes(key) \o EncBytes(val)
EncInner(h, sz, key, hash, l, r) ==
  EncVarint(h) \o EncVarint(sz) \o EncBytes(key) \o EncBytes(hash) \o EncVarint(0)
  \o EncVarint(l.ver) \o EncVarint(l.id) \o EncVarint(r.ver) \o EncVarint(r.id)

\* MakeLegacyNode: varint(height) varint(size) varint(version) bytes(key), then bytes(value) or
\* bytes(left hash) bytes(right hash)
DecLegacyNode(b) ==
  LET h == DecVarint(b, 1) IN
  IF IsErr(h) \/ ~InInt8(h.val) THEN Err ELSE
  LET sz == DecVarint(b, h.next) IN
  IF IsErr(sz) THEN Err ELSE
  LET ver == DecVarint(b, sz.next) IN
  IF IsErr(ver) THEN Err ELSE
  LET key == DecBytes(b, ver.next) IN
  IF IsErr(key) THEN Err ELSE
  IF h.val = 0 THEN
     LET v == DecBytes(b, key.next) IN
     IF IsErr(v) THEN Err ELSE [kind |-> "leaf", h |-> 0, sz |-> sz.val, ver |-> ver.val, key |-> key.val, val |-> v.val]
  ELSE
     LET l == DecBytes(b, key.next) IN
     IF IsErr(l) THEN Err ELSE
     LET r == DecBytes(b, l.next) IN
     IF IsErr(r) THEN Err
     ELSE [kind |-> "inner", h |-> h.val, sz |-> sz.val, ver |-> ver.val, key |-> key.val, l |-> l.val, r |-> r.val]

\* fast node: varint(version) bytes(value)
DecFast(b) ==
  LET v == DecVarint(b, 1) IN
  IF IsErr(v) THEN Err ELSE
  LET x == DecBytes(b, v.next) IN
  IF IsErr(x) THEN Err ELSE [ver |-> v.val, val |-> x.val]
EncFast(ver, val) == EncVarint(ver) \o EncBytes(val)

\* big-endian fixed-width integers of keys; only small values are exact
RECURSIVE BE(_, _, _)
BE(b, i, n) == IF n = 0 THEN 0
               ELSE LET rest == BE(b, i + 1, n - 1) IN
                    IF n > 3 THEN (IF b[i] # 0 THEN Big ELSE rest)
                    ELSE IF rest = Big THEN Big ELSE b[i] * (IF n = 3 THEN 65536 ELSE IF n = 2 THEN 256 ELSE 1) + rest
\* 's' ver(8) nonce(4)
DecSKey(b) == IF Len(b) # 13 \/ b[1] # 115 THEN Err ELSE [ver |-> BE(b, 2, 8), id |-> BE(b, 10, 4)]
RECURSIVE EncBE(_, _)
EncBE(x, n) == IF n = 0 THEN <<>> ELSE EncBE(x \div 256, n - 1) \o <<x % 256>>
EncSKey(ver, id) == <<115>> \o EncBE(ver, 8) \o EncBE(id, 4)

\* value stored under a root key: empty tree, reference, old-style reference, or a node
DecRootValue(b) ==
  IF Len(b) = 0 THEN [kind |-> "empty"]
  ELSE IF b[1] = 115 THEN
       IF Len(b) = 13 THEN [kind |-> "ref", ver |-> BE(b, 2, 8), id |-> BE(b, 10, 4)]
       ELSE IF Len(b) = 9 THEN [kind |-> "ref", ver |-> BE(b, 2, 8), id |-> 1]
       ELSE Err
  ELSE DecNode(b)

\* everything the harness asks about one byte string (batch decoding, C13)
DecodeAll(b) == [n |-> DecNode(b), l |-> DecLegacyNode(b), f |-> DecFast(b), r |-> DecRootValue(b),
                 v |-> DecVarint(b, 1), u |-> DecUvarint(b, 1), b |-> DecBytes(b, 1)]

---------------------------------------------------------------------------
(* theorems checked by TLC on a bounded domain (NodeCodec_mc.cfg) *)
SmallBytes == UNION {[1..n -> {0, 1, 127, 128, 255}] : n \in 0..2}
SmallInts == {0, 1, 2, 63, 64, 127, 128, 300, 16383, 16384}
RoundTripLeaf == \A k \in SmallBytes, v \in SmallBytes :
   DecNode(EncLeaf(k, v)) = [kind |-> "leaf", h |-> 0, sz |-> 1, key |-> k, val |-> v]
RoundTripInner == \A h \in {1, 2, 63, 127}, sz \in {2, 3, 64}, k \in {<<>>, <<0>>, <<255, 1>>},
                     lv \in SmallInts, li \in {0, 1, 2, 300}, rv \in {1, 128}, ri \in {1, 16384} :
   LET hash == [i \in 1..32 |-> (i * 7) % 256] IN
   DecNode(EncInner(h, sz, k, hash, [ver |-> lv, id |-> li], [ver |-> rv, id |-> ri]))
     = [kind |-> "inner", h |-> h, sz |-> sz, key |-> k, hash |-> hash, l |-> [ver |-> lv, id |-> li], r |-> [ver |-> rv, id |-> ri]]
RoundTripVarint == \A x \in SmallInts \cup {-1, -2, -64, -65, -128, -16384} : DecVarint(EncVarint(x), 1).val = x
RoundTripFast == \A ver \in SmallInts, v \in SmallBytes : DecFast(EncFast(ver, v)) = [ver |-> ver, val |-> v]
RoundTripKey == \A ver \in SmallInts, id \in {0, 1, 2, 255, 256, 65535} : DecSKey(EncSKey(ver, id)) = [ver |-> ver, id |-> id]
\* byte order of keys = numeric order of (version, nonce)
RECURSIVE LexLess(_, _)
LexLess(a, b) == IF Len(a) = 0 THEN Len(b) > 0 ELSE IF Len(b) = 0 THEN FALSE
                 ELSE IF a[1] # b[1] THEN a[1] < b[1] ELSE LexLess(Tail(a), Tail(b))
KeyOrder == \A v1, v2 \in {1, 2, 255, 256, 300}, i1, i2 \in {0, 1, 2, 256} :
   LexLess(EncSKey(v1, i1), EncSKey(v2, i2)) = (v1 < v2 \/ (v1 = v2 /\ i1 < i2))
\* every decoder is total on all short byte strings over a hostile alphabet
Hostile == UNION {[1..n -> {0, 1, 2, 127, 128, 255}] : n \in 0..4}
Total == \A b \in Hostile : /\ (IsErr(DecNode(b)) \/ "unknown" \in DOMAIN DecNode(b) \/ DecNode(b).kind \in {"leaf", "inner"})
                            /\ (IsErr(DecLegacyNode(b)) \/ DecLegacyNode(b).kind \in {"leaf", "inner"})
                            /\ (IsErr(DecFast(b)) \/ "ver" \in DOMAIN DecFast(b))
                            /\ (IsErr(DecRootValue(b)) \/ "kind" \in DOMAIN DecRootValue(b))
=============================================================================
