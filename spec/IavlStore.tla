------------------------------ MODULE IavlStore ------------------------------
(***************************************************************************)
(* The physical layer: what cosmos/iavl keeps in the key-value store for   *)
(* the logical state of Iavl.tla, written "as the code does it".           *)
(*                                                                         *)
(*   s(ver, nonce)  tree nodes; (v, 1) is also the root marker of version  *)
(*                  v: the root node itself, "" for an empty tree, or a    *)
(*                  reference to an older root.  A root that outlives the  *)
(*                  deletion of its version is re-keyed to (v, 0).         *)
(*   f(key)         the fast index: key -> [val, ver]                      *)
(*   m(storage_version)  the label "1.1.0-<version the index describes>"   *)
(*                                                                         *)
(* Disk(...) is a function of the logical state (that it is one is the     *)
(* content of C12: storage = reachable nodes); the fast index and its      *)
(* label are history dependent and are modelled as a state machine on top  *)
(* of the logical actions (the label machine of mutable_tree.go /          *)
(* nodedb.go).  The harness compares the raw store with Disk / fidx /      *)
(* label after every step, and TLC checks index coherence (P5) on the      *)
(* bounded instance.                                                       *)
(***************************************************************************)
EXTENDS Iavl

\* TRUE: the code as repaired (DeleteVersionsFrom invalidates the label of the fast index);
\* FALSE: the code as found, kept so that TLC can re-derive the counter-example of C07b
CONSTANT FixLvfoLabel,
         Exhaustive      \* TRUE: breadth-first generation - every transition prints the shortest path to
                         \* its source state plus the step (binding A-exh: one implementation test per transition)

VARIABLES ovl,      \* uncommitted fast-node overlay of the live handle: Keys -> NoE | Rm | [val, ver]
          fidx,     \* persisted fast index: Keys -> NoE | [val, ver]
          label,    \* version in the storage-version label; -1: no label (index never built)
          built,    \* version the persisted index was last (re)built from or committed at; 0 none
          stale,    \* ghost: the index was built from an older version than the latest and not rebuilt since
          phist     \* history of the physical expectations, parallel to hist (generation only)

pvars == <<ovl, fidx, label, built, stale, phist>>
svars == <<vars, pvars>>
sview == <<view, ovl, fidx, label, built, stale>>

NoE == [none |-> TRUE]
Rm  == [rm |-> TRUE]
NoOvl == [k \in Keys |-> NoE]

---------------------------------------------------------------------------
(* s key space as a function of the logical state *)

\* the key a node is stored under: a root (nonce 1) whose version has been deleted lives on as (ver, 0)
KeyOf(n, fst) == [ver |-> n.ver, id |-> IF n.id = 1 /\ n.ver < fst THEN 0 ELSE n.id]

RECURSIVE DiskNodes(_, _)
DiskNodes(t, fst) ==
  IF IsNil(t) THEN {}
  ELSE IF IsLeaf(t) THEN {[key |-> KeyOf(t, fst), kind |-> "leaf", h |-> 0, sz |-> 1, k |-> t.k, v |-> t.v]}
  ELSE {[key |-> KeyOf(t, fst), kind |-> "inner", h |-> t.h, sz |-> t.sz, k |-> t.k,
         \* child references keep the key the child had when the parent was written: (ver, nonce)
         l |-> [ver |-> t.l.ver, id |-> t.l.id], r |-> [ver |-> t.r.ver, id |-> t.r.id]]}
       \cup DiskNodes(t.l, fst) \cup DiskNodes(t.r, fst)

\* root markers that are not nodes: empty tree, or reference to the root of an older version
Markers(sv, fst, lst) ==
  {[key |-> [ver |-> v, id |-> 1], kind |-> "empty"] : v \in {x \in fst..lst : lst # 0 /\ IsNil(sv[x])}}
  \cup {[key |-> [ver |-> v, id |-> 1], kind |-> "ref", tver |-> sv[v].ver, tid |-> sv[v].id] :
          v \in {x \in fst..lst : lst # 0 /\ ~IsNil(sv[x]) /\ sv[x].ver # x}}

Disk(sv, fst, lst) ==
  (UNION {DiskNodes(sv[v], fst) : v \in (IF lst = 0 THEN {} ELSE fst..lst)}) \cup Markers(sv, fst, lst)

\* C12/P2: no two entries share a key (a marker never collides with a node)
DiskKeysUnique == LET d == Disk(saved, first, latest) IN
                  \A a, b \in d : a.key = b.key => a = b

---------------------------------------------------------------------------
(* the fast index *)

IndexOf(t, ver) == [k \in Keys |-> IF Lookup(t, k) = Absent THEN NoE ELSE [val |-> Lookup(t, k), ver |-> ver]]

\* the label written when the index is (re)built from loaded version lv while the latest is lat.
\* The index is labelled with the version it was built from, so that a later load of the latest
\* version sees the mismatch and rebuilds (C07a across restarts, repaired).
LabelAtBuild(lv, lat) == lv

\* enableFastStorageAndCommitIfNotEnabled on a handle with the index on that has loaded lv:
\* rebuild iff there is no label or it differs from the latest version
Enable(sv, lv, lat, p) ==
  IF p.label = -1 \/ p.label # lat
  THEN [fidx |-> IndexOf(IF lv = 0 THEN Nil ELSE sv[lv], lv), label |-> LabelAtBuild(lv, lat), built |-> lv, stale |-> lv < lat]
  ELSE p
Phys == [fidx |-> fidx, label |-> label, built |-> built, stale |-> stale]
SetPhys(p) == fidx' = p.fidx /\ label' = p.label /\ built' = p.built /\ stale' = p.stale

\* SaveVersion with the index on writes the overlay: additions, removals
CommitIdx(fi, ov) == [k \in Keys |-> IF ov[k] = NoE THEN fi[k] ELSE IF ov[k] = Rm THEN NoE ELSE ov[k]]

\* overlay after the first n pairs of a change set were applied through Set / Remove
RECURSIVE OvlApply(_, _, _)
OvlApply(ov, cs, n) ==
  IF n = 0 THEN ov
  ELSE LET o == OvlApply(ov, cs, n - 1)  c == cs[n] IN
       IF c.del THEN [o EXCEPT ![c.k] = Rm] ELSE [o EXCEPT ![c.k] = [val |-> c.v, ver |-> version + 1]]

PLog == phist' = IF Record THEN Append(phist, [label |-> label', built |-> built', stale |-> stale',
                    fidx |-> {[k |-> k, val |-> fidx'[k].val, ver |-> fidx'[k].ver] : k \in {x \in Keys : fidx'[x] # NoE}},
                    disk |-> Disk(saved', first', latest')]) ELSE phist
PEmit == Exhaustive => PrintT(<<"TRACE", ToJson([h |-> hist', p |-> phist'])>>)

SInit == /\ Init /\ ovl = NoOvl /\ fidx = [k \in Keys |-> NoE]
         /\ phist = (IF Record THEN <<[label |-> (IF fast THEN 0 ELSE -1), built |-> 0, stale |-> FALSE, fidx |-> {}, disk |-> {}]>> ELSE <<>>)
         \* a handle with the index on builds the (empty) index of the empty store when it loads
         /\ label = (IF fast THEN 0 ELSE -1) /\ built = 0 /\ stale = FALSE

SSet(k, v) == /\ Set(k, v)
              /\ ovl' = IF fast THEN [ovl EXCEPT ![k] = [val |-> v, ver |-> version + 1]] ELSE ovl
              /\ UNCHANGED <<fidx, label, built, stale>> /\ PLog /\ PEmit
SSetNil(k) == SetNil(k) /\ UNCHANGED <<ovl, fidx, label, built, stale>> /\ PLog /\ PEmit
SRemove(k) == /\ Remove(k)
              /\ ovl' = IF fast /\ RemT(work, k).rem THEN [ovl EXCEPT ![k] = Rm] ELSE ovl
              /\ UNCHANGED <<fidx, label, built, stale>> /\ PLog /\ PEmit
\* a commit that creates a version writes the overlay and the label; a no-op or failed commit keeps them
SaveIdx(ov) ==
  IF Target \in Retained THEN ovl' = ov /\ UNCHANGED <<fidx, label, built, stale>>
  ELSE IF fast THEN fidx' = CommitIdx(fidx, ov) /\ label' = Target /\ built' = Target /\ ovl' = NoOvl /\ stale' = stale
  ELSE ovl' = NoOvl /\ UNCHANGED <<fidx, label, built, stale>>
SSave == SaveVersion /\ SaveIdx(ovl) /\ PLog /\ PEmit
SSaveCS(cs) ==
  /\ SaveChangeSet(cs)
  /\ IF Dirty THEN UNCHANGED <<ovl, fidx, label, built, stale>>
     ELSE LET r == ApplyCS(work, wm, cs, 1)
              n == IF r.bad # 0 THEN r.bad - 1 ELSE Len(cs)
              ov == IF fast THEN OvlApply(ovl, cs, n) ELSE ovl IN
          IF r.bad # 0 THEN ovl' = ov /\ UNCHANGED <<fidx, label, built, stale>> ELSE SaveIdx(ov)
  /\ PLog /\ PEmit
SRollback == Rollback /\ ovl' = NoOvl /\ UNCHANGED <<fidx, label, built, stale>> /\ PLog /\ PEmit
SReopen(f) ==
  /\ Reopen(f) /\ ovl' = NoOvl
  /\ (IF f THEN SetPhys(Enable(saved, latest, latest, Phys)) ELSE UNCHANGED <<fidx, label, built, stale>>)
  /\ PLog /\ PEmit
\* a new handle that loads an older version directly
SReopenAt(f, t) ==
  /\ ReopenAt(f, t) /\ ovl' = NoOvl
  /\ (IF f THEN SetPhys(Enable(saved, t, latest, Phys)) ELSE UNCHANGED <<fidx, label, built, stale>>)
  /\ PLog /\ PEmit
SLoad(t) ==
  /\ LoadVersion(t)
  /\ LET tt == IF t = 0 THEN latest ELSE t IN
     IF latest # 0 /\ tt \in Retained
     THEN /\ ovl' = NoOvl
          /\ (IF fast THEN SetPhys(Enable(saved, tt, latest, Phys)) ELSE UNCHANGED <<fidx, label, built, stale>>)
     ELSE UNCHANGED <<ovl, fidx, label, built, stale>>
  /\ PLog /\ PEmit
\* rollback: LoadVersion(t), erase the later versions (which invalidates the label), enable again
SLvfo(t) ==
  /\ LoadVersionForOverwriting(t)
  /\ IF t \in Retained
     THEN /\ ovl' = NoOvl
          /\ IF \E p \in pins : p > t
             THEN \* refused after the load: only the LoadVersion(t) part happened
                  (IF fast THEN SetPhys(Enable(saved, t, latest, Phys)) ELSE UNCHANGED <<fidx, label, built, stale>>)
             ELSE IF fast THEN LET p1 == Enable(saved, t, latest, Phys)
                                   p2 == IF FixLvfoLabel /\ t < latest THEN [p1 EXCEPT !.label = 0] ELSE p1 IN
                               SetPhys(Enable(saved, t, t, p2))
             ELSE /\ fidx' = fidx /\ built' = built /\ stale' = stale
                  /\ label' = IF FixLvfoLabel /\ label # -1 /\ t < latest THEN 0 ELSE label
     ELSE UNCHANGED <<ovl, fidx, label, built, stale>>
  /\ PLog /\ PEmit
SExpOpen(t) == ExportOpen(t) /\ UNCHANGED <<ovl, fidx, label, built, stale>> /\ PLog /\ PEmit
SExpClose(t) == ExportClose(t) /\ UNCHANGED <<ovl, fidx, label, built, stale>> /\ PLog /\ PEmit
SDelTo(n) == DeleteVersionsTo(n) /\ UNCHANGED <<ovl, fidx, label, built, stale>> /\ PLog /\ PEmit
SImport(t, f) ==
  /\ ImportSwitch(t, f) /\ ovl' = NoOvl
  /\ (IF f THEN fidx' = IndexOf(saved[t], t) /\ label' = t /\ built' = t
      ELSE fidx' = [k \in Keys |-> NoE] /\ label' = -1 /\ built' = 0)
  /\ stale' = FALSE
  /\ PLog /\ PEmit

---------------------------------------------------------------------------
(* reads that consult the index, as the code answers them *)
Walk(qv, k) == Lookup(saved[qv], k)
\* ImmutableTree.Get on a tree of version qv obtained from the live handle
ImmGet(qv, k) ==
  IF ~fast THEN Walk(qv, k)
  ELSE IF fidx[k] = NoE THEN (IF qv = latest THEN Absent ELSE Walk(qv, k))
  ELSE IF fidx[k].ver <= qv THEN fidx[k].val ELSE Walk(qv, k)
\* MutableTree.Get on the working state
MutGet(k) ==
  IF fast /\ ovl[k] # NoE THEN (IF ovl[k] = Rm THEN Absent ELSE ovl[k].val)
  ELSE IF IsNil(work) THEN Absent
  ELSE IF ~fast THEN Lookup(work, k)
  ELSE IF fidx[k] = NoE THEN (IF version = latest THEN Absent ELSE Lookup(work, k))
  ELSE IF fidx[k].ver <= version THEN fidx[k].val ELSE Lookup(work, k)

\* P5: index coherence - whenever the index is consulted, the answer equals the tree walk
P5imm == \A qv \in Retained, k \in Keys : ImmGet(qv, k) = Walk(qv, k)
P5mut == \A k \in Keys : MutGet(k) = Lookup(work, k)
\* after any commit or open with the index on, the persistent index describes exactly the latest version
IdxIsLatest == \A k \in Keys : (fidx[k] = NoE /\ Lookup(TreeAt(latest), k) = Absent)
                                 \/ (fidx[k] # NoE /\ fidx[k].val = Lookup(TreeAt(latest), k))
P5persist == (fast /\ label = latest /\ latest # 0 /\ ~stale) => IdxIsLatest
\* The one deviation that is a listed finding (F-C07a): a handle with the index on loaded an
\* OLDER version and (re)built the index from it.  Until the next rebuild from the latest version,
\* reads that consult the index - also of later versions, also after a no-op commit moved the
\* handle to the latest version, and also after a commit through that handle has "laundered" the
\* label - are answered from an index that does not describe the latest version.
DevC07a == fast /\ stale
\* counter-example printer: a violated P5 prints the behaviour that leads to it (binding C)
P5cex == IF (P5imm /\ P5mut) \/ DevC07a THEN TRUE ELSE PrintT(<<"TRACE", ToJson([h |-> hist, p |-> phist])>>) /\ FALSE
\* the same without the listed deviation: TLC re-derives the shortest history of finding F-C07a
P5strictcex == IF P5imm /\ P5mut THEN TRUE ELSE PrintT(<<"TRACE", ToJson([h |-> hist, p |-> phist])>>) /\ FALSE
P5 == (P5imm /\ P5mut) \/ DevC07a

---------------------------------------------------------------------------
SNextBounded ==
  \/ nops < MaxOps /\ \E k \in Keys, v \in Vals : SSet(k, v)
  \/ nops < MaxOps /\ \E k \in Keys : SRemove(k)
  \/ (latest < MaxVer \/ Target \in Retained) /\ SSave
  \/ nops > 0 /\ SRollback
  \/ \E f \in BOOLEAN : SReopen(f)
  \/ \E f \in BOOLEAN, t \in Retained : SReopenAt(f, t)
  \/ \E t \in 0..(latest + 1) : SLoad(t)
  \/ \E t \in 1..(latest + 1) : SLvfo(t)
  \/ \E n \in 0..(latest + 1) : DelOk(n) /\ SDelTo(n)
  \/ \E t \in Retained, f \in BOOLEAN : SImport(t, f)
  \/ \E t \in Retained : SExpOpen(t)
  \/ \E t \in pins : SExpClose(t)

SFinish == /\ Len(hist) >= D /\ ~done /\ done' = TRUE
           /\ UNCHANGED <<work, saved, first, latest, version, fast, iv, nops, wm, vm, wlog, pins, hist, pvars>>
           /\ PrintT(<<"TRACE", ToJson([h |-> hist, p |-> phist])>>)

SNextSim ==
  IF Len(hist) >= D THEN SFinish
  ELSE LET c == Classes[RandomElement(1..Len(Classes))] IN
    CASE c = "set"      -> \E k \in Keys, v \in Vals : SSet(k, v)
      [] c = "setnew"   -> IF KeysOf(work) = Keys THEN \E k \in Keys, v \in Vals : SSet(k, v)
                           ELSE \E k \in Keys \ KeysOf(work), v \in Vals : SSet(k, v)
      [] c = "setnil"   -> \E k \in Keys : SSetNil(k)
      [] c = "rm"       -> \E k \in Keys : SRemove(k)
      [] c = "rmhit"    -> IF IsNil(work) THEN \E k \in Keys : SRemove(k) ELSE \E k \in KeysOf(work) : SRemove(k)
      [] c = "save"     -> SSave
      [] c = "rollback" -> SRollback
      [] c = "reopen"   -> \E f \in BOOLEAN : SReopen(f)
      [] c = "reopenat" -> IF latest = 0 THEN \E f \in BOOLEAN : SReopen(f) ELSE \E f \in BOOLEAN, t \in Retained : SReopenAt(f, t)
      [] c = "load"     -> \E t \in 0..(latest + 1) : SLoad(t)
      [] c = "lvfo"     -> \E t \in 1..(latest + 1) : SLvfo(t)
      [] c = "delto"    -> \E n \in 0..(latest + 1) : DelOk(n) /\ SDelTo(n)
      [] c = "deltook"  -> IF latest = 0 \/ DelEff = {} THEN SSave ELSE \E n \in DelEff : SDelTo(n)
      [] c = "import"   -> IF latest = 0 THEN SSave ELSE \E t \in Retained, f \in BOOLEAN : SImport(t, f)
      [] c = "savecs"   -> \E cs \in CSCands : SSaveCS(cs)
      [] c = "savecsreplay" -> IF version # 0 /\ version < latest /\ ~Dirty /\ (version + 1) \in Retained
                               THEN SSaveCS(Changes(TreeAt(version), saved[version + 1], version))
                               ELSE IF ~Dirty /\ latest # 0 /\ version = latest /\ (latest - 1) \in Retained
                               THEN SLoad(latest - 1)
                               ELSE SSave
      [] c = "expopen"  -> IF Retained \ pins = {} THEN SRollback ELSE \E t \in Retained \ pins : SExpOpen(t)
      [] c = "expclose" -> IF pins = {} THEN SRollback ELSE \E t \in pins : SExpClose(t)
      [] OTHER          -> SSave

SSpecBounded == SInit /\ [][SNextBounded]_svars
SSpecSim     == SInit /\ [][SNextSim]_svars
=============================================================================
