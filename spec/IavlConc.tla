------------------------------ MODULE IavlConc ------------------------------
(***************************************************************************)
(* Concurrent readers of committed versions next to the single writer      *)
(* (C06).  One step is one critical section under nodeDB.mtx ("[L]") or    *)
(* one unlocked access to a field of a shared object ("[U]").              *)
(*                                                                         *)
(* Writer:  Set / Remove on the working tree (cloning a persisted node on  *)
(* the path), SaveVersion (fast-index changes and nodes go to the batch,   *)
(* which may auto-flush at any time; Commit writes the rest and updates    *)
(* the fast-node cache; only then the latest version is published),        *)
(* DeleteVersionsTo (refused if a version in range is pinned).             *)
(* Readers: hold an immutable tree of a committed version r and call Get   *)
(* (fast path: fast node, then latest version, then the staleness guard)   *)
(* or walk the tree through cached node objects; they may pin r by an      *)
(* export.                                                                 *)
(*                                                                         *)
(* Properties:                                                             *)
(*   ReadCommitted  every value a reader returns is the value of its       *)
(*                  version as committed                                   *)
(*   NoRace         no state in which a reader and the writer are both     *)
(*                  about to access the same field of the same object      *)
(*                  without the lock, one of them writing                  *)
(*   PinHolds       a version pinned by an open export is not deleted      *)
(*                                                                         *)
(* Constants select the variant of the code:                               *)
(*   CloneNilsChildren  TRUE = Node.clone writes nil into the child        *)
(*                      pointers of the persisted node it copies (as       *)
(*                      found); FALSE = repaired                           *)
(*   PublishEarly       TRUE = the latest version is published before the  *)
(*                      batch is committed (repaired); FALSE = as found    *)
(*   FastReadAtomic     FALSE = the lock is released between the disk read *)
(*                      of a fast node and the cache fill (a plausible     *)
(*                      "do not hold the lock across I/O" change): TLC     *)
(*                      refutes ReadCommitted; the storage-gate replay of  *)
(*                      the harness forces the same schedule on the code   *)
(*   AsyncPrune         background pruning (AsyncPruningOption): the       *)
(*                      request is recorded, the pruner checks it under    *)
(*                      the lock (latest version, pins), then deletes one  *)
(*                      version per step through the writer's batch        *)
(***************************************************************************)
EXTENDS Integers, Sequences, FiniteSets, TLC

CONSTANTS K, Readers, MaxOps, CloneNilsChildren, PublishEarly, CacheShared,
          FastReadAtomic,   \* TRUE = GetFastNode holds the lock from the cache lookup to the cache fill (as in the code)
          AsyncPrune        \* TRUE = DeleteVersionsTo only records the request; a background goroutine carries it out

Keys == 1..K
Vals == {1, 2}
None == 0                      \* absent value / no fast node

VARIABLES vm,        \* committed versions: sequence of maps Keys -> Vals \cup {None}
          wm,        \* working map of the writer
          fd,        \* fast index on disk: Keys -> [val, ver] or None
          fc,        \* fast-node cache: Keys -> [val, ver], or "miss"
          batch,     \* fast-index operations of the running commit not yet on disk
          pendc,     \* cache updates applied at Commit
          latest,    \* published latest version (nodeDB.latestVersion)
          first,     \* first retained version
          pins,      \* function version -> number of open exports
          wpc, wops, \* writer: program counter, operations done
          wtouch,    \* the writer is inside clone() of the shared persisted root object: "none", "left", "right"
          preq,      \* background pruning: requested target (nodeDB.pruneVersion, 0 = none)
          ptgt,      \* background pruning: target the pruner is working on (0 = idle)
          rpc, rver, rkey, rfn, rres, rfield  \* readers

vars == <<vm, wm, fd, fc, batch, pendc, latest, first, pins, wpc, wops, wtouch, preq, ptgt, rpc, rver, rkey, rfn, rres, rfield>>

Entry(v, ver) == [val |-> v, ver |-> ver]
NoFn == [nofn |-> TRUE]        \* no fast node
Miss == [miss |-> TRUE]

Init ==
  /\ vm = << [k \in Keys |-> IF k = 1 THEN 1 ELSE None] >>
  /\ wm = vm[1]
  /\ fd = [k \in Keys |-> IF k = 1 THEN Entry(1, 1) ELSE NoFn]
  /\ fc \in [Keys -> {Miss}] \cup {[k \in Keys |-> IF k = 1 THEN Entry(1, 1) ELSE Miss]}    \* cold or warm cache
  /\ batch = <<>> /\ pendc = <<>>
  /\ latest = 1 /\ first = 1
  /\ pins = [v \in 1..4 |-> 0]
  /\ wpc = "idle" /\ wops = 0 /\ wtouch = "none" /\ preq = 0 /\ ptgt = 0
  /\ rpc = [r \in Readers |-> "idle"] /\ rver = [r \in Readers |-> 0] /\ rkey = [r \in Readers |-> 1]
  /\ rfn = [r \in Readers |-> NoFn] /\ rres = [r \in Readers |-> None] /\ rfield = [r \in Readers |-> "none"]

W(vs) == UNCHANGED <<rpc, rver, rkey, rfn, rres, rfield, preq, ptgt>> /\ UNCHANGED vs

---------------------------------------------------------------------------
(* writer *)
\* Set / Remove: clones the persisted root (shared with readers through the node cache)
WSet(k, v) ==
  /\ wpc = "idle" /\ wops < MaxOps
  /\ wm' = [wm EXCEPT ![k] = v] /\ wops' = wops + 1
  /\ wpc' = IF CloneNilsChildren THEN "clone" ELSE "idle"
  /\ wtouch' = IF CloneNilsChildren THEN "left" ELSE "none"
  /\ W(<<vm, fd, fc, batch, pendc, latest, first, pins>>)
\* [U] node.leftNode = nil ; [U] node.rightNode = nil   (node.go: clone)
WCloneWrite ==
  /\ wpc = "clone"
  /\ IF wtouch = "left" THEN wtouch' = "right" /\ wpc' = "clone" ELSE wtouch' = "none" /\ wpc' = "idle"
  /\ W(<<vm, wm, fd, fc, batch, pendc, latest, first, pins, wops>>)

\* SaveVersion, step 1: the fast-index changes of the version go to the batch
FastOps == LET nv == Len(vm) + 1 IN
  [k \in Keys |-> IF wm[k] = vm[Len(vm)][k] THEN [kind |-> "none"]
                  ELSE IF wm[k] = None THEN [kind |-> "del", k |-> k]
                  ELSE [kind |-> "set", k |-> k, e |-> Entry(wm[k], nv)]]
SeqOfOps == LET f == FastOps IN
  (IF f[1].kind = "none" THEN <<>> ELSE <<f[1]>>) \o (IF K >= 2 /\ f[2].kind # "none" THEN <<f[2]>> ELSE <<>>)
WSaveStart ==
  /\ wpc = "idle" /\ wops < MaxOps /\ Len(vm) < 3
  /\ batch' = SeqOfOps /\ pendc' = SeqOfOps
  /\ latest' = IF PublishEarly THEN Len(vm) + 1 ELSE latest
  /\ wpc' = "saving" /\ wops' = wops + 1
  /\ W(<<vm, wm, fd, fc, first, pins, wtouch>>)
\* the batch may flush early (BatchWithFlusher): its first operation reaches the disk, not the cache
ApplyDisk(d, o) == IF o.kind = "del" THEN [d EXCEPT ![o.k] = NoFn] ELSE [d EXCEPT ![o.k] = o.e]
WFlush ==
  /\ wpc = "saving" /\ Len(batch) > 0
  /\ fd' = ApplyDisk(fd, Head(batch)) /\ batch' = Tail(batch)
  /\ W(<<vm, wm, fc, pendc, latest, first, pins, wpc, wops, wtouch>>)
\* [L] Commit: the rest of the batch is written, the version exists on disk, the cache is updated
RECURSIVE ApplyAllDisk(_, _)
ApplyAllDisk(d, ops) == IF Len(ops) = 0 THEN d ELSE ApplyAllDisk(ApplyDisk(d, Head(ops)), Tail(ops))
ApplyCache(c, o) == IF o.kind = "del" THEN [c EXCEPT ![o.k] = Miss] ELSE [c EXCEPT ![o.k] = o.e]
RECURSIVE ApplyAllCache(_, _)
ApplyAllCache(c, ops) == IF Len(ops) = 0 THEN c ELSE ApplyAllCache(ApplyCache(c, Head(ops)), Tail(ops))
WCommit ==
  /\ wpc = "saving"
  /\ fd' = ApplyAllDisk(fd, batch) /\ batch' = <<>>
  /\ fc' = ApplyAllCache(fc, pendc) /\ pendc' = <<>>
  /\ vm' = Append(vm, wm)
  /\ wpc' = "committed"          \* verifYield("save:committed")
  /\ W(<<wm, latest, first, pins, wops, wtouch>>)
\* [L] resetLatestVersion
WPublish ==
  /\ wpc = "committed"
  /\ latest' = Len(vm) /\ wpc' = "idle"
  /\ W(<<vm, wm, fd, fc, batch, pendc, first, pins, wops, wtouch>>)
\* DeleteVersionsTo(n): refused if a version in range is pinned (checked under the lock)
\* contract of the property: the writer only deletes versions nobody is reading (an open export is
\* different: it pins its version and the request must be refused)
Unread(n) == \A r \in Readers : rpc[r] \in {"get1", "fill", "get2", "walk"} => rver[r] > n
WPrune(n) ==
  /\ ~AsyncPrune /\ Unread(n)
  /\ wpc = "idle" /\ wops < MaxOps /\ n >= first /\ n < latest
  /\ wops' = wops + 1
  /\ IF \E v \in first..n : pins[v] > 0 THEN first' = first ELSE first' = n + 1
  /\ W(<<vm, wm, fd, fc, batch, pendc, latest, pins, wpc, wtouch>>)
\* background pruning. [L] DeleteVersionsTo(n) records the request and returns
WPruneAsync(n) ==
  /\ AsyncPrune /\ Unread(n)
  /\ wpc = "idle" /\ wops < MaxOps /\ n >= first /\ n < latest /\ n > preq
  /\ wops' = wops + 1 /\ preq' = n
  /\ UNCHANGED <<vm, wm, fd, fc, batch, pendc, latest, first, pins, wpc, wtouch, ptgt, rpc, rver, rkey, rfn, rres, rfield>>
\* the pruner picks the request up and checks it under the lock; a refused request is tried again later
PPick ==
  /\ AsyncPrune /\ ptgt = 0 /\ preq # 0
  /\ IF preq < latest /\ ~(\E v \in first..preq : pins[v] > 0) THEN ptgt' = preq ELSE ptgt' = 0
  /\ UNCHANGED <<vm, wm, fd, fc, batch, pendc, latest, first, pins, wpc, wops, wtouch, preq, rpc, rver, rkey, rfn, rres, rfield>>
\* one version per step: its orphans go to the writer's batch, the first version moves on
PDelete ==
  /\ ptgt # 0 /\ first <= ptgt
  /\ first' = first + 1
  /\ UNCHANGED <<vm, wm, fd, fc, batch, pendc, latest, pins, wpc, wops, wtouch, preq, ptgt, rpc, rver, rkey, rfn, rres, rfield>>
\* [L] done: the request is cleared unless a newer one arrived
PDone ==
  /\ ptgt # 0 /\ first > ptgt
  /\ preq' = IF preq <= ptgt THEN 0 ELSE preq
  /\ ptgt' = 0
  /\ UNCHANGED <<vm, wm, fd, fc, batch, pendc, latest, first, pins, wpc, wops, wtouch, rpc, rver, rkey, rfn, rres, rfield>>

---------------------------------------------------------------------------
(* readers *)
R(r, vs) == UNCHANGED <<vm, wm, fd, batch, pendc, latest, first, wpc, wops, wtouch, preq, ptgt>> /\ UNCHANGED vs

\* GetImmutable(v) of a published, retained version; optionally pinned by an export
\* contract of the property: the writer only deletes versions nobody reads, so no read starts on a version
\* that a recorded request is going to delete
Scheduled(v) == v <= preq \/ v <= ptgt
RStart(r, v, k, pin) ==
  /\ rpc[r] = "idle" /\ v >= first /\ v <= latest /\ v <= Len(vm) /\ ~Scheduled(v)
  /\ rver' = [rver EXCEPT ![r] = v] /\ rkey' = [rkey EXCEPT ![r] = k]
  /\ pins' = IF pin THEN [pins EXCEPT ![v] = @ + 1] ELSE pins
  /\ rpc' = [rpc EXCEPT ![r] = IF pin THEN "pinned" ELSE "get1"]
  /\ R(r, <<fc, rfn, rres, rfield>>)
RUnpin(r) ==
  /\ rpc[r] = "pinned"
  /\ pins' = [pins EXCEPT ![rver[r]] = @ - 1] /\ rpc' = [rpc EXCEPT ![r] = "idle"]
  /\ R(r, <<fc, rver, rkey, rfn, rres, rfield>>)
\* [L] GetFastNode: cache, else disk (and the cache is filled)
RGet1(r) ==
  /\ rpc[r] = "get1"
  /\ LET k == rkey[r]
         hit == fc[k] # Miss
         fn == IF hit THEN fc[k] ELSE fd[k] IN
     /\ rfn' = [rfn EXCEPT ![r] = fn]
     /\ IF FastReadAtomic \/ hit \/ fn = NoFn
        THEN /\ fc' = IF ~hit /\ fn # NoFn THEN [fc EXCEPT ![k] = fn] ELSE fc
             /\ rpc' = [rpc EXCEPT ![r] = "get2"]       \* verifYield("get:fastnode")
        ELSE \* the lock is released after the disk read; the cache is filled in a second critical section
             /\ fc' = fc /\ rpc' = [rpc EXCEPT ![r] = "fill"]
  /\ R(r, <<pins, rver, rkey, rres, rfield>>)
RFill(r) ==
  /\ rpc[r] = "fill"
  /\ fc' = [fc EXCEPT ![rkey[r]] = rfn[r]]
  /\ rpc' = [rpc EXCEPT ![r] = "get2"]
  /\ R(r, <<pins, rver, rkey, rfn, rres, rfield>>)
\* [L] getCachedLatestVersion, then the guard; a walk reads immutable nodes: its result is the version's value
RGet2(r) ==
  /\ rpc[r] = "get2"
  /\ LET fn == rfn[r]  v == rver[r]  k == rkey[r]
         walk == vm[v][k] IN
     rres' = [rres EXCEPT ![r] = IF fn = NoFn THEN (IF v = latest THEN None ELSE walk)
                                  ELSE IF fn.ver <= v THEN fn.val ELSE walk]
  /\ rpc' = [rpc EXCEPT ![r] = "done"]
  /\ R(r, <<fc, pins, rver, rkey, rfn, rfield>>)
\* a tree walk through the shared root object: [U] read node.leftNode / node.rightNode
RWalk(r, v) ==
  /\ rpc[r] = "idle" /\ v >= first /\ v <= latest /\ v <= Len(vm) /\ ~Scheduled(v)
  /\ rver' = [rver EXCEPT ![r] = v]
  /\ rpc' = [rpc EXCEPT ![r] = "walk"] /\ rfield' = [rfield EXCEPT ![r] = "left"]
  /\ R(r, <<fc, pins, rkey, rfn, rres>>)
RWalkRead(r) ==
  /\ rpc[r] = "walk"
  /\ IF rfield[r] = "left" THEN rfield' = [rfield EXCEPT ![r] = "right"] /\ rpc' = rpc
     ELSE rfield' = [rfield EXCEPT ![r] = "none"] /\ rpc' = [rpc EXCEPT ![r] = "idle"]
  /\ R(r, <<fc, pins, rver, rkey, rfn, rres>>)
RDone(r) ==
  /\ rpc[r] = "done" /\ rpc' = [rpc EXCEPT ![r] = "idle"]
  /\ R(r, <<fc, pins, rver, rkey, rfn, rres, rfield>>)

Next ==
  \/ \E k \in Keys, v \in Vals \cup {None} : WSet(k, v)
  \/ WCloneWrite \/ WSaveStart \/ WFlush \/ WCommit \/ WPublish
  \/ \E n \in 1..3 : WPrune(n) \/ WPruneAsync(n)
  \/ PPick \/ PDelete \/ PDone
  \/ \E r \in Readers :
       \/ \E v \in 1..3, k \in Keys, pin \in BOOLEAN : RStart(r, v, k, pin)
       \/ RUnpin(r) \/ RGet1(r) \/ RFill(r) \/ RGet2(r) \/ RDone(r)
       \/ \E v \in 1..3 : RWalk(r, v)
       \/ RWalkRead(r)
Spec == Init /\ [][Next]_vars

---------------------------------------------------------------------------
\* every value a reader returns equals the value of the key in its version as committed
ReadCommitted == \A r \in Readers : rpc[r] = "done" => rres[r] = vm[rver[r]][rkey[r]]
\* lockset race: the reader is about to read field f of the shared root object of the version the
\* writer's working tree is based on, and the writer is about to write the same field, both unlocked
NoRace == \A r \in Readers :
   ~(CacheShared /\ wpc = "clone" /\ rpc[r] = "walk" /\ rver[r] = Len(vm) /\ rfield[r] = wtouch)
\* a pinned version is never deleted
PinHolds == \A v \in 1..4 : pins[v] > 0 => v >= first
\* a version somebody is reading is retained (the walk reads nodes of that version from the store)
ReadersRetained == \A r \in Readers : rpc[r] \in {"get1", "fill", "get2", "walk", "pinned"} => rver[r] >= first
\* the latest version is never deleted, whatever was requested
LatestKept == first <= latest
=============================================================================
