------------------------------- MODULE MCIavl -------------------------------
EXTENDS Iavl
SimClasses == <<"set", "set", "set", "set", "set", "rm", "rmhit", "rmhit", "save", "save", "save", "save",
                "rollback", "reopen", "reopen", "load", "lvfo", "delto", "delto", "setnil", "import">>
=============================================================================
