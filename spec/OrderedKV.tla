------------------------------ MODULE OrderedKV ------------------------------
(***************************************************************************)
(* The ordered key-value contract that every bundled backend of            *)
(* cosmos/iavl/db must implement (db/types.go): MemDB, GoLevelDB and the   *)
(* prefix-namespaced PrefixDB over either, also nested.                    *)
(*                                                                         *)
(* There is ONE physical store `base` (a map from byte strings to byte     *)
(* strings) and three handles on it: "base" itself, "v1" = a prefix view   *)
(* with prefix P1 over base, "v2" = a prefix view with prefix P2 over v1   *)
(* (nested).  Every operation through a view is DEFINED by translation to  *)
(* the base (prepend the prefixes); iteration is defined as the sorted set *)
(* of keys of the base that carry the prefix and lie in [start, end) after *)
(* the prefix is stripped.  The definition never mentions the successor    *)
(* of a prefix, so an error in an implementation's bound arithmetic        *)
(* (0xFF runs!) cannot hide in the oracle.                                 *)
(*                                                                         *)
(* Keys and values are sequences of bytes; Nil is the nil slice.           *)
(***************************************************************************)
EXTENDS Integers, Sequences, FiniteSets, TLC, Json

CONSTANTS Alphabet,      \* bytes keys are made of, e.g. {0, 1, 255}
          MaxKeyLen,
          P1, P2,        \* the prefixes of the two views
          D, Classes,
          Record         \* TRUE: keep the history (generation); FALSE: exhaustive check of the contract

Nil == <<-1>>            \* the nil slice (distinct from the empty sequence <<>>)
KeysUpTo(n) == UNION {[1..m -> Alphabet] : m \in 1..n}
ArgKeys == KeysUpTo(MaxKeyLen) \cup {<<>>}                  \* keys given as arguments (incl. the empty key)
ArgVals == {Nil, <<>>, <<7>>, <<8, 9>>}
Bounds == KeysUpTo(MaxKeyLen) \cup {Nil, <<>>}
Views == {"base", "v1", "v2"}
Prefix(view) == IF view = "base" THEN <<>> ELSE IF view = "v1" THEN P1 ELSE P1 \o P2

VARIABLES base,      \* the physical store: function from key (sequence) to value (sequence)
          batches,   \* sequence of [view, ops, status]; status \in {"open", "written", "closed"}
          hist, done
vars == <<base, batches, hist, done>>

\* lexicographic order on byte sequences
RECURSIVE Less(_, _)
Less(a, b) == IF Len(a) = 0 THEN Len(b) > 0 ELSE IF Len(b) = 0 THEN FALSE
              ELSE IF a[1] # b[1] THEN a[1] < b[1] ELSE Less(Tail(a), Tail(b))
Leq(a, b) == a = b \/ Less(a, b)
HasPrefix(k, p) == Len(k) >= Len(p) /\ SubSeq(k, 1, Len(p)) = p
Strip(k, p) == SubSeq(k, Len(p) + 1, Len(k))

\* sorted sequence of a finite set of byte sequences
RECURSIVE SortedSeq(_)
SortedSeq(S) == IF S = {} THEN <<>>
              ELSE LET m == CHOOSE x \in S : \A y \in S : Leq(x, y) IN <<m>> \o SortedSeq(S \ {m})
Rev(sq) == [i \in 1..Len(sq) |-> sq[Len(sq) + 1 - i]]

\* keys visible through a view in [s, e): the definition of iteration
Visible(view, s, e) ==
  LET p == Prefix(view) IN
  {Strip(k, p) : k \in {x \in DOMAIN base : HasPrefix(x, p) /\ Len(x) > Len(p)
                                              /\ (s = Nil \/ Leq(s, Strip(x, p)))
                                              /\ (e = Nil \/ Less(Strip(x, p), e))}}
IterResult(view, s, e, rev) ==
  LET ks == SortedSeq(Visible(view, s, e))
      items == [i \in 1..Len(ks) |-> [k |-> ks[i], v |-> base[Prefix(view) \o ks[i]]]] IN
  IF rev THEN Rev(items) ELSE items

Init == base = <<>> /\ batches = <<>> /\ hist = <<>> /\ done = FALSE

Log(r) == hist' = IF Record THEN Append(hist, r) ELSE hist
Put(m, k, v) == (k :> v) @@ m
Del(m, k) == [x \in (DOMAIN m) \ {k} |-> m[x]]

Get(view, k) ==
  /\ UNCHANGED <<base, batches, done>>
  /\ Log([op |-> "get", view |-> view, k |-> k,
          res |-> IF k = <<>> THEN [err |-> TRUE]
                  ELSE [err |-> FALSE, val |-> IF (Prefix(view) \o k) \in DOMAIN base THEN base[Prefix(view) \o k] ELSE Nil]])
\* Has of the empty key: an error or "false" are both acceptable (the backends differ; the contract is silent)
Has(view, k) ==
  /\ UNCHANGED <<base, batches, done>>
  /\ Log([op |-> "has", view |-> view, k |-> k,
          res |-> IF k = <<>> THEN [err |-> "either", has |-> FALSE]
                  ELSE [err |-> FALSE, has |-> (Prefix(view) \o k) \in DOMAIN base]])
Set(view, k, v) ==
  LET bad == k = <<>> \/ v = Nil IN
  /\ base' = IF bad THEN base ELSE Put(base, Prefix(view) \o k, v)
  /\ UNCHANGED <<batches, done>>
  /\ Log([op |-> "set", view |-> view, k |-> k, v |-> v, res |-> [err |-> bad]])
Delete(view, k) ==
  /\ base' = IF k = <<>> THEN base ELSE Del(base, Prefix(view) \o k)
  /\ UNCHANGED <<batches, done>>
  /\ Log([op |-> "delete", view |-> view, k |-> k, res |-> [err |-> k = <<>>]])

NewBatch(view) ==
  /\ Len(batches) < 3
  /\ batches' = Append(batches, [view |-> view, ops |-> <<>>, status |-> "open"])
  /\ UNCHANGED <<base, done>>
  /\ Log([op |-> "newbatch", view |-> view, b |-> Len(batches) + 1, res |-> [err |-> FALSE]])
BSet(b, k, v) ==
  LET bt == batches[b]  bad == bt.status # "open" \/ k = <<>> \/ v = Nil IN
  /\ batches' = IF bad THEN batches ELSE [batches EXCEPT ![b].ops = Append(@, [set |-> TRUE, k |-> k, v |-> v])]
  /\ UNCHANGED <<base, done>>
  /\ Log([op |-> "bset", b |-> b, k |-> k, v |-> v, res |-> [err |-> bad]])
BDelete(b, k) ==
  LET bt == batches[b]  bad == bt.status # "open" \/ k = <<>> IN
  /\ batches' = IF bad THEN batches ELSE [batches EXCEPT ![b].ops = Append(@, [set |-> FALSE, k |-> k, v |-> Nil])]
  /\ UNCHANGED <<base, done>>
  /\ Log([op |-> "bdelete", b |-> b, k |-> k, res |-> [err |-> bad]])
\* a batch is applied atomically and in order, and cannot be used afterwards
RECURSIVE Apply(_, _, _)
Apply(m, p, ops) == IF Len(ops) = 0 THEN m
                    ELSE LET o == Head(ops) IN
                         Apply(IF o.set THEN Put(m, p \o o.k, o.v) ELSE Del(m, p \o o.k), p, Tail(ops))
BWrite(b) ==
  LET bt == batches[b]  bad == bt.status # "open" IN
  /\ base' = IF bad THEN base ELSE Apply(base, Prefix(bt.view), bt.ops)
  /\ batches' = IF bad THEN batches ELSE [batches EXCEPT ![b].status = "written"]
  /\ UNCHANGED done
  /\ Log([op |-> "bwrite", b |-> b, res |-> [err |-> bad]])
BClose(b) ==
  /\ batches' = [batches EXCEPT ![b].status = "closed"]
  /\ UNCHANGED <<base, done>>
  /\ Log([op |-> "bclose", b |-> b, res |-> [err |-> FALSE]])

\* an empty (non-nil) bound is an error; otherwise exactly the keys in [start, end), in order
Iterate(view, s, e, rev) ==
  /\ UNCHANGED <<base, batches, done>>
  /\ Log([op |-> "iter", view |-> view, s |-> s, e |-> e, rev |-> rev,
          res |-> IF s = <<>> \/ e = <<>> THEN [err |-> TRUE] ELSE [err |-> FALSE, items |-> IterResult(view, s, e, rev)]])

\* after every program the whole physical store is compared too
Finish == /\ Len(hist) >= D /\ ~done /\ done' = TRUE /\ UNCHANGED <<base, batches, hist>>
          /\ PrintT(<<"TRACE", ToJson([p1 |-> P1, p2 |-> P2, ops |-> hist,
                                        final |-> IterResult("base", Nil, Nil, FALSE)])>>)

StoredKeys(view) == {Strip(k, Prefix(view)) : k \in {x \in DOMAIN base : HasPrefix(x, Prefix(view)) /\ Len(x) > Len(Prefix(view))}}
Next ==
  IF Len(hist) >= D THEN Finish
  ELSE LET c == Classes[RandomElement(1..Len(Classes))] IN
    CASE c = "set"     -> \E w \in Views, k \in ArgKeys, v \in ArgVals : Set(w, k, v)
      [] c = "setok"   -> \E w \in Views, k \in KeysUpTo(MaxKeyLen), v \in ArgVals \ {Nil} : Set(w, k, v)
      [] c = "get"     -> \E w \in Views, k \in ArgKeys : Get(w, k)
      [] c = "has"     -> \E w \in Views, k \in ArgKeys : Has(w, k)
      [] c = "delete"  -> \E w \in Views, k \in ArgKeys : Delete(w, k)
      [] c = "delhit"  -> \E w \in Views : IF StoredKeys(w) = {} THEN \E k \in ArgKeys : Delete(w, k) ELSE \E k \in StoredKeys(w) : Delete(w, k)
      [] c = "iter"    -> \E w \in Views, s \in Bounds, e \in Bounds, r \in BOOLEAN : Iterate(w, s, e, r)
      [] c = "iterall" -> \E w \in Views, r \in BOOLEAN : Iterate(w, Nil, Nil, r)
      [] c = "newbatch"-> IF Len(batches) < 3 THEN \E w \in Views : NewBatch(w) ELSE \E w \in Views : Iterate(w, Nil, Nil, FALSE)
      [] c = "bop"     -> IF Len(batches) = 0 THEN \E w \in Views : NewBatch(w)
                          ELSE \E b \in 1..Len(batches) : (\E k \in ArgKeys, v \in ArgVals : BSet(b, k, v)) \/ (\E k \in ArgKeys : BDelete(b, k))
      [] c = "bend"    -> IF Len(batches) = 0 THEN \E w \in Views : NewBatch(w)
                          ELSE \E b \in 1..Len(batches) : BWrite(b) \/ BClose(b)
      [] OTHER         -> \E w \in Views : Iterate(w, Nil, Nil, FALSE)
Spec == Init /\ [][Next]_vars

\* bounded exhaustive exploration of the contract itself (no history)
NextB == \/ Cardinality(DOMAIN base) < 3 /\ \E w \in Views, k \in ArgKeys, v \in {Nil, <<>>, <<7>>} : Set(w, k, v)
         \/ \E w \in Views, k \in ArgKeys : Delete(w, k)
         \/ Len(batches) < 2 /\ \E w \in Views : NewBatch(w)
         \/ \E b \in 1..Len(batches) : Len(batches[b].ops) < 2 /\ (\E k \in ArgKeys, v \in {Nil, <<7>>} : BSet(b, k, v))
         \/ \E b \in 1..Len(batches) : Len(batches[b].ops) < 2 /\ (\E k \in ArgKeys : BDelete(b, k))
         \/ \E b \in 1..Len(batches) : BWrite(b)
         \/ \E b \in 1..Len(batches) : BClose(b)
SpecB == Init /\ [][NextB]_vars

\* never an empty key or a nil value in the store
InvStored == \A k \in DOMAIN base : k # <<>> /\ base[k] # Nil
\* a view shows exactly the base keys that carry its prefix (nothing outside, nothing missing), in order
InvViews == \A w \in Views :
   LET it == IterResult(w, Nil, Nil, FALSE) IN
   /\ \A i \in 1..Len(it) : (Prefix(w) \o it[i].k) \in DOMAIN base /\ it[i].v = base[Prefix(w) \o it[i].k]
   /\ \A i \in 1..(Len(it) - 1) : Less(it[i].k, it[i + 1].k)
   /\ Len(it) = Cardinality({x \in DOMAIN base : HasPrefix(x, Prefix(w)) /\ Len(x) > Len(Prefix(w))})
\* forward and reverse iteration agree
InvReverse == \A w \in Views : IterResult(w, Nil, Nil, TRUE) = Rev(IterResult(w, Nil, Nil, FALSE))
=============================================================================
