---------------------------- MODULE TreeTheorems ----------------------------
(***************************************************************************)
(* Design-level theorems about the tree algebra, checked (not proved) by   *)
(* TLC on every tree / every pair of consecutive versions reachable in a   *)
(* bounded instance.  Each theorem relates an ALGORITHM transcribed from   *)
(* the code to its DEFINITION; the harness uses the definitions as oracle. *)
(*   T4  range traversal (iterator.go)  = RangeOf                          *)
(*   T5  orphan diff (nodedb.go)        = Nodes(prev) \ Nodes(cur)         *)
(*   T6  change-set diff (diff.go)      = net writes of the version        *)
(*   T7  export order is post-order; import rebuilds the same tree         *)
(*   T8  neighbours by rank             = predecessor / successor          *)
(***************************************************************************)
EXTENDS IAVLTree

CONSTANTS K, V, MaxVer, MaxOps
Keys == 1..K
Vals == 0..(V - 1)

VARIABLES prev,     \* the version committed before cur (Nil if none)
          cur,      \* last committed tree
          work,     \* working tree
          ver,      \* last committed version
          nops

vars == <<prev, cur, work, ver, nops>>

Init == prev = Nil /\ cur = Nil /\ work = Nil /\ ver = 0 /\ nops = 0

Set(k, v) == /\ nops < MaxOps /\ work' = SetT(work, k, v).t /\ nops' = nops + 1 /\ UNCHANGED <<prev, cur, ver>>
Remove(k) == /\ nops < MaxOps /\ work' = RemT(work, k).t /\ nops' = nops + 1 /\ UNCHANGED <<prev, cur, ver>>
Commit    == /\ ver < MaxVer /\ prev' = cur /\ cur' = Stamp(work, ver + 1) /\ work' = cur' /\ ver' = ver + 1 /\ nops' = 0

Next == (\E k \in Keys, v \in Vals : Set(k, v)) \/ (\E k \in Keys : Remove(k)) \/ Commit
Spec == Init /\ [][Next]_vars
\* per-tree theorems need no versions: explore the distinct working trees only (VIEW treeview)
NextTree == (\E k \in Keys, v \in Vals : Set(k, v)) \/ (\E k \in Keys : Remove(k))
SpecTree == Init /\ [][NextTree]_vars
treeview == work

Bounds == {None} \cup (0..(K + 1))

\* T4 on the working tree (unsaved and saved nodes mixed) for every bound, direction, inclusiveness
T4 == \A s \in Bounds, e \in Bounds, asc \in BOOLEAN, incl \in BOOLEAN :
        IterRange(work, s, e, asc, incl) = RangeOf(work, s, e, asc, incl)

\* post-order export: children before parents, left before right, every node exactly once
RECURSIVE PostOrder(_)
PostOrder(t) == IF IsNil(t) THEN <<>> ELSE IF IsLeaf(t) THEN <<t>> ELSE PostOrder(t.l) \o PostOrder(t.r) \o <<t>>
T7a == ExportSeq(cur) = PostOrder(cur)
\* import rebuilds a tree with the same hash-relevant content, persisted, with unique node keys
T7b == LET i == ImportTree(cur, ver) IN Strip(i) = Strip(cur) /\ (IsNil(cur) \/ Persisted(i)) /\ Pairs(i) = Pairs(cur)

\* orphan diff: exactly the nodes of prev that cur does not contain, each once
NodeIds(sq) == {[ver |-> sq[i].ver, id |-> sq[i].id] : i \in 1..Len(sq)}
T5 == ver >= 2 =>
        LET o == Orphans(prev, cur, ver - 1) IN
        /\ NodeIds(o) = Nodes(prev) \ Nodes(cur)
        /\ Cardinality(NodeIds(o)) = Len(o)

\* change set: the net writes of the version, ascending, once per key; applying it to prev gives cur
RECURSIVE Apply(_, _)
Apply(m, cs) == IF Len(cs) = 0 THEN m
                ELSE LET c == Head(cs) IN
                     Apply([m EXCEPT ![c.k] = IF c.del THEN Absent ELSE c.v], Tail(cs))
MapOf(t) == [k \in Keys |-> Lookup(t, k)]
T6 == ver >= 1 =>
        LET cs == Changes(prev, cur, ver - 1) IN
        /\ cs = NetChanges(prev, cur, ver - 1)
        /\ Apply(MapOf(prev), cs) = MapOf(cur)
        /\ \A i \in 1..(Len(cs) - 1) : cs[i].k < cs[i + 1].k
        /\ \A i \in 1..Len(cs) : cs[i].del => Lookup(prev, cs[i].k) # Absent

\* neighbours chosen by rank are the predecessor and successor of an absent key
T8 == \A k \in Keys : Lookup(work, k) = Absent /\ ~IsNil(work) =>
        LET n == Neighbours(work, k)
            below == {x \in KeysOf(work) : x < k}
            above == {x \in KeysOf(work) : x > k} IN
        /\ n.left  = (IF below = {} THEN 0 ELSE CHOOSE x \in below : \A y \in below : y <= x)
        /\ n.right = (IF above = {} THEN 0 ELSE CHOOSE x \in above : \A y \in above : x <= y)

T2 == WellFormed(work) /\ WellFormed(cur) /\ (IsNil(cur) \/ Persisted(cur))
\* AVL height bound h <= 1.4405 log2(n+2): checked in integer form fib(h+2) <= n + 1, i.e. a
\* tree of height h has at least fib(h+2) leaves (leaves = size here)
RECURSIVE Fib(_)
Fib(n) == IF n <= 1 THEN n ELSE Fib(n - 1) + Fib(n - 2)
T11 == IsNil(work) \/ Fib(work.h + 2) <= work.sz + 1
=============================================================================
