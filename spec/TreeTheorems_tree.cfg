SPECIFICATION SpecTree
CONSTANTS
  K = 4
  V = 2
  MaxVer = 0
  MaxOps = 9
VIEW treeview
INVARIANTS T2 T4 T8 T11
CHECK_DEADLOCK FALSE
