SPECIFICATION SSpecBounded
CONSTANTS
  K = 2
  V = 2
  IVs = {0}
  D = 0
  MaxVer = 3
  MaxOps = 2
  Classes <- SimClasses
  Record = FALSE
  FixLvfoLabel = TRUE
  Exhaustive = FALSE
VIEW sview
INVARIANTS InvContents DiskKeysUnique P5 P5persist
CHECK_DEADLOCK FALSE
