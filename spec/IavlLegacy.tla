------------------------------ MODULE IavlLegacy ------------------------------
(***************************************************************************)
(* A store whose first versions were written by the legacy (pre-1.0,       *)
(* hash-keyed) library (C16).  The legacy phase of a behaviour - sets,     *)
(* removals, commits, and a legacy-side deletion of the oldest d versions  *)
(* (which leaves orphan records behind) - is executed by the legacy        *)
(* library itself (iavl v0.20.0, /verif/legacygen); the trees it builds    *)
(* are the same terms of the tree algebra, so the hash the legacy library  *)
(* recorded, SHA-256 over the specification's tree and the hash the new    *)
(* library reports for a legacy version must all be equal.                 *)
(*                                                                         *)
(* After the migration the store behaves like Iavl.tla with these rules:   *)
(*  - DeleteVersionsTo(n) with n below the legacy boundary is a lawful     *)
(*    no-op (legacy versions are deleted lazily, all at once, by the first *)
(*    request at or above the boundary);                                   *)
(*  - LoadVersionForOverwriting to a legacy version moves the boundary.    *)
(***************************************************************************)
EXTENDS Iavl

CONSTANT LegacyClasses

VARIABLES ll,        \* latest legacy version (0: no legacy version exists any more / not migrated yet)
          phase      \* "legacy" | "new"
lvars == <<ll, phase>>
lall == <<vars, lvars>>

LInit == Init /\ iv = 0 /\ ll = 0 /\ phase = "legacy"

LegacySet(k, v) == phase = "legacy" /\ Set(k, v) /\ UNCHANGED lvars
LegacyRemove(k) == phase = "legacy" /\ Remove(k) /\ UNCHANGED lvars
LegacySave == phase = "legacy" /\ SaveVersion /\ UNCHANGED lvars

\* the legacy library deletes its oldest d versions, then the new library opens the database
Migrate(d, f) ==
  /\ phase = "legacy" /\ latest >= 1 /\ nops = 0 /\ d >= 0 /\ d < latest
  /\ phase' = "new" /\ ll' = latest
  /\ first' = d + 1
  /\ saved' = Restrict(saved, (d + 1)..latest) /\ vm' = Restrict(vm, (d + 1)..latest)
  /\ fast' = f /\ version' = latest /\ work' = saved[latest] /\ wm' = vm[latest] /\ nops' = 0 /\ WClear
  /\ UNCHANGED <<latest, iv, pins, done>>
  /\ Log("migrate", [n |-> d, fast |-> f], [ver |-> latest, err |-> FALSE])

NewSet(k, v) == phase = "new" /\ Set(k, v) /\ UNCHANGED lvars
NewRemove(k) == phase = "new" /\ Remove(k) /\ UNCHANGED lvars
NewSave == phase = "new" /\ SaveVersion /\ UNCHANGED lvars
NewRollback == phase = "new" /\ Rollback /\ UNCHANGED lvars
NewReopen(f) == phase = "new" /\ Reopen(f) /\ UNCHANGED lvars
NewLoad(t) == phase = "new" /\ LoadVersion(t) /\ UNCHANGED lvars
\* below the boundary: nothing happens (and nothing fails)
NewDelTo(n) ==
  /\ phase = "new"
  /\ IF ll # 0 /\ first <= ll /\ n < ll THEN
        /\ UNCHANGED <<work, saved, first, latest, version, fast, iv, nops, wm, vm, wlog, done, pins, ll, phase>>
        /\ Log("delto", [n |-> n], [err |-> FALSE])
     ELSE /\ DeleteVersionsTo(n)
          /\ ll' = IF n < latest /\ n >= first /\ ~(\E p \in pins : p >= first /\ p <= n) THEN 0 ELSE ll
          /\ UNCHANGED phase
NewLvfo(t) ==
  /\ phase = "new" /\ LoadVersionForOverwriting(t)
  /\ ll' = IF t \in Retained /\ t < ll THEN t ELSE ll
  /\ UNCHANGED phase

LFinish == /\ Len(hist) >= D /\ ~done /\ done' = TRUE
           /\ UNCHANGED <<work, saved, first, latest, version, fast, iv, nops, wm, vm, wlog, pins, hist, lvars>>
           /\ PrintT(<<"TRACE", ToJson(hist)>>)

LNextSim ==
  IF Len(hist) >= D THEN LFinish
  ELSE IF phase = "legacy" THEN
    LET c == LegacyClasses[RandomElement(1..Len(LegacyClasses))] IN
    CASE c = "set"     -> \E k \in Keys, v \in Vals : LegacySet(k, v)
      [] c = "rm"      -> IF IsNil(work) THEN LegacySave ELSE \E k \in KeysOf(work) : LegacyRemove(k)
      [] c = "save"    -> LegacySave
      [] c = "migrate" -> IF latest >= 1 /\ nops = 0 THEN \E d \in 0..(latest - 1), f \in BOOLEAN : Migrate(d, f) ELSE LegacySave
      [] OTHER         -> LegacySave
  ELSE
    LET c == Classes[RandomElement(1..Len(Classes))] IN
    CASE c = "set"      -> \E k \in Keys, v \in Vals : NewSet(k, v)
      [] c = "rm"       -> IF IsNil(work) THEN NewSave ELSE \E k \in KeysOf(work) : NewRemove(k)
      [] c = "save"     -> NewSave
      [] c = "rollback" -> NewRollback
      [] c = "reopen"   -> \E f \in BOOLEAN : NewReopen(f)
      [] c = "load"     -> \E t \in 0..(latest + 1) : NewLoad(t)
      [] c = "lvfo"     -> \E t \in 1..(latest + 1) : NewLvfo(t)
      [] c = "delto"    -> \E n \in 0..(latest + 1) : DelOk(n) /\ NewDelTo(n)
      \* focused generator classes: a rollback to a legacy version below the boundary; an effective prune at or above it
      [] c = "lvfoleg"  -> LET cand == {t \in Retained : t < ll} IN
                           IF cand = {} THEN NewSave ELSE \E t \in cand : NewLvfo(t)
      [] c = "deltoabove" -> LET cand == {n \in DelEff : n >= ll} IN
                           IF latest = 0 \/ cand = {} THEN NewSave ELSE \E n \in cand : NewDelTo(n)
      [] OTHER          -> NewSave
LSpecSim == LInit /\ [][LNextSim]_lall

\* bounded exploration
LNextB ==
  \/ nops < MaxOps /\ \E k \in Keys, v \in Vals : LegacySet(k, v) \/ NewSet(k, v)
  \/ nops < MaxOps /\ \E k \in Keys : LegacyRemove(k) \/ NewRemove(k)
  \/ latest < MaxVer /\ (LegacySave \/ NewSave)
  \/ \E d \in 0..MaxVer, f \in BOOLEAN : Migrate(d, f)
  \/ \E f \in BOOLEAN : NewReopen(f)
  \/ \E t \in 0..(latest + 1) : NewLoad(t)
  \/ \E t \in 1..(latest + 1) : NewLvfo(t)
  \/ \E n \in 0..(latest + 1) : DelOk(n) /\ NewDelTo(n)
LSpecB == LInit /\ [][LNextB]_lall
lview == <<view, ll, phase>>

\* the boundary is a retained version or gone; every version meant to remain has its contents
InvBoundary == ll = 0 \/ (ll >= first /\ ll <= latest)
=============================================================================
