------------------------------ MODULE IavlTrace ------------------------------
(***************************************************************************)
(* Trace validation (implementation -> specification): executions of the   *)
(* real library, recorded by a random driver that knows nothing about the  *)
(* specification, are checked line by line against the actions of Iavl.tla.*)
(* Every line carries the call, its arguments, what the call returned and  *)
(* what the public API shows afterwards (version range, loaded version,    *)
(* next version, every key's value, height, size, and at a commit the      *)
(* post-order export of the new version: key, value, node version, height  *)
(* of every node - the preimage of the root hash).  Read-only probes       *)
(* (iteration over ranges in both directions, lookup by key with rank,     *)
(* lookup by rank, reads of retained versions) are lines too: they must    *)
(* leave the state unchanged and agree with the specification's operators. *)
(*                                                                         *)
(* A line is accepted iff the action of Iavl.tla with the logged arguments *)
(* is enabled and produces exactly the logged results and observations.    *)
(* All actions are deterministic given their arguments, so validation is   *)
(* linear in the length of the trace.  Several traces are concatenated;    *)
(* an "open" line starts a new store (TraceReset).                         *)
(*                                                                         *)
(* Acceptance: the high-water mark of l (register 42) is Len(Trace) + 1.   *)
(* NotStuck gives a counter-example (the specification's state before the  *)
(* rejected line) when a single trace is re-validated after a rejection.   *)
(***************************************************************************)
EXTENDS Iavl

VARIABLE l              \* the next line of the trace

Trace == ndJsonDeserialize("trace.ndjson")
Ev == Trace[l]
EmptyHist == <<>>       \* cfg: HistBase <- EmptyHist, so hist' holds exactly the record of the last call
Lst == hist'[1]

tvars == <<work, saved, first, latest, version, fast, iv, nops, wm, vm, wlog, pins, hist, done, l>>

\* post-order export of a tree: leaves carry their value, inner nodes -1
RECURSIVE Post(_)
Post(t) == IF IsNil(t) THEN <<>>
           ELSE IF IsLeaf(t) THEN <<[k |-> t.k, v |-> t.v, ver |-> t.ver, h |-> 0]>>
           ELSE Post(t.l) \o Post(t.r) \o <<[k |-> t.k, v |-> -1, ver |-> t.ver, h |-> t.h]>>

\* what the public API shows after the call
Obs == /\ Ev.first = first' /\ Ev.latest = latest'
       /\ Ev.ver = version' /\ Ev.tgt = TargetOf(version', iv')
       /\ Ev.reads = [k \in Keys |-> wm'[k]]
       /\ Ev.h = (IF IsNil(work') THEN 0 ELSE work'.h)
       /\ Ev.sz = (IF IsNil(work') THEN 0 ELSE work'.sz)

IsEvent(op) == l <= Len(Trace) /\ Ev.op = op /\ l' = l + 1

OpenRec(f, i) == [op |-> "open", a |-> [fast |-> f], r |-> [ver |-> 0, err |-> FALSE],
                  first |-> 0, latest |-> 0, ver |-> 0, fast |-> f, iv |-> i, tgt |-> TargetOf(0, i), work |-> Nil]

TraceInit == /\ l = 2 /\ Trace[1].op = "open"
             /\ work = Nil /\ saved = <<>> /\ first = 0 /\ latest = 0 /\ version = 0
             /\ fast = Trace[1].fast /\ iv = Trace[1].iv /\ nops = 0
             /\ wm = EmptyMap /\ vm = <<>> /\ wlog = <<>> /\ pins = {}
             /\ hist = <<OpenRec(Trace[1].fast, Trace[1].iv)>> /\ done = FALSE
             /\ TLCSet(42, 2)

\* a new, empty store
TraceReset == /\ IsEvent("open")
              /\ work' = Nil /\ saved' = <<>> /\ first' = 0 /\ latest' = 0 /\ version' = 0
              /\ fast' = Ev.fast /\ iv' = Ev.iv /\ nops' = 0
              /\ wm' = EmptyMap /\ vm' = <<>> /\ wlog' = <<>> /\ pins' = {}
              /\ hist' = <<OpenRec(Ev.fast, Ev.iv)>> /\ done' = FALSE

TSet      == IsEvent("set") /\ Set(Ev.k, Ev.v) /\ ~Ev.err /\ Lst.r.upd = Ev.upd /\ Obs
TSetNil   == IsEvent("setnil") /\ SetNil(Ev.k) /\ Ev.err /\ Obs
TRemove   == IsEvent("rm") /\ Remove(Ev.k) /\ ~Ev.err /\ Lst.r.rem = Ev.rem /\ Lst.r.val = Ev.val /\ Obs
TSave     == /\ IsEvent("save") /\ SaveVersion /\ Lst.r.err = Ev.err /\ Obs
             /\ ~Ev.err => (Lst.r.ver = Ev.rver /\ Ev.exp = Post(Lst.r.tree))
TRollback == IsEvent("rollback") /\ Rollback /\ Obs
TReopen   == IsEvent("reopen") /\ Reopen(Ev.fast) /\ ~Ev.err /\ Lst.r.ver = Ev.rver /\ Obs
TLoad     == /\ IsEvent("load") /\ LoadVersion(Ev.t) /\ Lst.r.err = Ev.err /\ Obs
             /\ ~Ev.err => Lst.r.ver = Ev.rver
TLvfo     == IsEvent("lvfo") /\ LoadVersionForOverwriting(Ev.t) /\ Lst.r.err = Ev.err /\ Obs
TDelTo    == IsEvent("delto") /\ DelOk(Ev.n) /\ DeleteVersionsTo(Ev.n) /\ Lst.r.err = Ev.err /\ Obs
\* a read-only probe of a retained (or missing) version: no action of Iavl.tla, the state stays
TVersioned == /\ IsEvent("versioned")
              /\ UNCHANGED <<work, saved, first, latest, version, fast, iv, nops, wm, vm, wlog, pins, hist, done>>
              /\ Ev.exists = (Ev.t \in Retained)
              /\ Ev.t \in Retained => /\ Ev.reads = [k \in Keys |-> vm[Ev.t][k]]
                                      /\ Ev.exp = Post(saved[Ev.t])

\* SaveChangeSet: the pairs arrive as records [k, v, del]
TSaveCS   == /\ IsEvent("savecs") /\ SaveChangeSet(Ev.cs) /\ Lst.r.err = Ev.err /\ Obs
             /\ ~Ev.err => (Lst.r.ver = Ev.rver /\ Ev.exp = Post(Lst.r.tree))
\* read-only probes of the working tree (t = -1) or of a retained version: iteration over [s, e)
\* (bounds are keys or None = -1), lookups by key with rank, lookups by rank
TreeOf(t) == IF t = -1 THEN work ELSE saved[t]
Flat(ps) == [i \in 1..Len(ps) |-> [k |-> ps[i][1], v |-> ps[i][2]]]
TIter     == /\ IsEvent("iter") /\ (Ev.t = -1 \/ Ev.t \in Retained)
             /\ UNCHANGED <<work, saved, first, latest, version, fast, iv, nops, wm, vm, wlog, pins, hist, done>>
             /\ Ev.items = Flat(RangeOf(TreeOf(Ev.t), Ev.s, Ev.e, Ev.asc, FALSE))
             \* the traversal algorithm of the code, transcribed, gives the same sequence (TreeTheorems T4)
             /\ Ev.items = Flat(IterRange(TreeOf(Ev.t), Ev.s, Ev.e, Ev.asc, FALSE))
TIndex    == /\ IsEvent("index") /\ (Ev.t = -1 \/ Ev.t \in Retained)
             /\ UNCHANGED <<work, saved, first, latest, version, fast, iv, nops, wm, vm, wlog, pins, hist, done>>
             /\ LET g == GetWithIndex(TreeOf(Ev.t), Ev.k) IN Ev.idx = g.idx /\ Ev.val = g.val
             /\ LET b == GetByIndex(TreeOf(Ev.t), Ev.n) IN
                  IF b = <<>> THEN Ev.bk = 0 ELSE (Ev.bk = b[1] /\ Ev.bv = b[2])

\* export of a retained version imported into an empty store; the history continues there
TImport   == /\ IsEvent("import") /\ ImportSwitch(Ev.t, Ev.fast) /\ ~Ev.err /\ Obs
             /\ Ev.exp = Post(Lst.r.tree)

TraceNext == TImport \/ TSaveCS \/ TIter \/ TIndex \/ TraceReset \/ TSet \/ TSetNil \/ TRemove \/ TSave \/ TRollback \/ TReopen \/ TLoad \/ TLvfo \/ TDelTo \/ TVersioned

TraceSpec == TraceInit /\ [][TraceNext]_tvars

\* high-water mark of the matched prefix (needs -workers 1)
Mark == TLCSet(42, IF l > TLCGet(42) THEN l ELSE TLCGet(42))
TraceAccepted == /\ PrintT(<<"HWM", TLCGet(42), Len(Trace)>>)
                 /\ TLCGet(42) = Len(Trace) + 1
\* for the re-validation of a rejected trace: TLC prints the state before the rejected line
NotStuck == l <= Len(Trace) => ENABLED TraceNext
=============================================================================
