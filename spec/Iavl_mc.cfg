SPECIFICATION SpecBounded
CONSTANTS
  K = 3
  V = 2
  IVs = {0, 3}
  D = 0
  MaxVer = 3
  MaxOps = 2
  Classes <- SimClasses
  Record = FALSE
VIEW view
INVARIANTS InvContents InvShape InvRange InvVersions InvRank
CHECK_DEADLOCK FALSE
