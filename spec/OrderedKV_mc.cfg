SPECIFICATION SpecB
CONSTANTS
  Alphabet <- A_
  MaxKeyLen = 1
  P1 <- P1_
  P2 <- P2_
  D = 0
  Classes <- NoClasses
  Record = FALSE
INVARIANTS InvStored InvViews InvReverse
CHECK_DEADLOCK FALSE
