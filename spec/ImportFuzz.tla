----------------------------- MODULE ImportFuzz -----------------------------
(***************************************************************************)
(* The importer (import.go) as a total function on ARBITRARY node streams: *)
(* a transcription of Importer.Add / Commit / Close and of Node.validate   *)
(* that predicts, for every call, whether it returns an error.  TLC        *)
(* enumerates all streams over a small hostile alphabet (exhaustively up   *)
(* to a length bound, randomly beyond); the harness feeds each stream to   *)
(* the real importer and requires                                          *)
(*   - no panic, no hang;                                                  *)
(*   - the same error / no error answer for every Add and for Commit;      *)
(*   - nothing visible in the store unless Commit succeeded;               *)
(*   - an accepted stream is exported again unchanged (the stack machine   *)
(*     is the inverse of the post-order traversal).                        *)
(* Field values are symbolic: key/value "nil", "empty" or a letter;        *)
(* heights and versions are integers from the configured sets.             *)
(***************************************************************************)
EXTENDS Integers, Sequences, FiniteSets, TLC, Json

CONSTANTS IV,         \* version given to MutableTree.Import
          Heights, Versions, KeysA, ValsA,   \* the alphabet of ExportNode fields
          MaxLen,     \* bound on the stream length
          Exhaustive  \* TRUE: BFS, every terminal transition prints one line; FALSE: simulation

VARIABLES stack,      \* sequence of pending nodes [h, sz, ver, key, val, kids]
          nonces,     \* function 0..IV -> number of nodes seen with that version
          calls,      \* history: the calls made and whether each must return an error
          phase       \* "adding" | "done"

vars == <<stack, nonces, calls, phase>>

Node == [h : Heights, ver : Versions, key : KeysA, val : ValsA]

\* Node.validate, applied when a node is written
Invalid(n) ==
  \/ n.key = "nil"
  \/ n.ver <= 0
  \/ n.h < 0
  \/ n.sz < 1
  \/ (n.h = 0 /\ (n.val = "nil" \/ n.kids \/ n.sz # 1))
  \/ (n.h # 0 /\ n.val # "nil")

Init == stack = <<>> /\ nonces = [v \in 0..IV |-> 0] /\ calls = <<>> /\ phase = "adding"

Top2Lower(h) == Len(stack) >= 2 /\ stack[Len(stack)].h < h /\ stack[Len(stack) - 1].h < h

\* Importer.Add
Add(n) ==
  /\ phase = "adding" /\ Len(calls) < MaxLen
  /\ IF n.ver > IV \/ n.ver < 0 THEN
        /\ calls' = Append(calls, [op |-> "add", n |-> n, err |-> TRUE]) /\ UNCHANGED <<stack, nonces, phase>>
     ELSE IF n.h # 0 /\ Top2Lower(n.h) THEN
        LET l == stack[Len(stack) - 1]  r == stack[Len(stack)] IN
        IF Invalid(l) \/ Invalid(r) THEN
           \* writing a child fails: the error is returned, the stack is left as it was
           /\ calls' = Append(calls, [op |-> "add", n |-> n, err |-> TRUE]) /\ UNCHANGED <<stack, nonces, phase>>
        ELSE
           /\ stack' = Append(SubSeq(stack, 1, Len(stack) - 2),
                              [h |-> n.h, sz |-> l.sz + r.sz, ver |-> n.ver, key |-> n.key, val |-> n.val, kids |-> TRUE])
           /\ nonces' = [nonces EXCEPT ![n.ver] = @ + 1]
           /\ calls' = Append(calls, [op |-> "add", n |-> n, err |-> FALSE]) /\ UNCHANGED phase
     ELSE
        /\ stack' = Append(stack, [h |-> n.h, sz |-> IF n.h = 0 THEN 1 ELSE 0, ver |-> n.ver, key |-> n.key, val |-> n.val, kids |-> FALSE])
        /\ nonces' = [nonces EXCEPT ![n.ver] = @ + 1]
        /\ calls' = Append(calls, [op |-> "add", n |-> n, err |-> FALSE]) /\ UNCHANGED phase

\* Importer.Commit: empty tree, a single root, or an error
CommitErr == Len(stack) > 1 \/ (Len(stack) = 1 /\ Invalid(stack[1]))
Emit(c) == PrintT(<<"TRACE", ToJson([iv |-> IV, calls |-> c])>>)
Commit ==
  /\ phase = "adding"
  /\ calls' = Append(calls, [op |-> "commit", err |-> CommitErr, size |-> IF Len(stack) = 1 THEN stack[1].sz ELSE 0])
  /\ phase' = "done" /\ UNCHANGED <<stack, nonces>>
  /\ (Exhaustive => Emit(calls'))
\* Importer.Close without Commit
Close ==
  /\ phase = "adding"
  /\ calls' = Append(calls, [op |-> "close", err |-> FALSE])
  /\ phase' = "done" /\ UNCHANGED <<stack, nonces>>
  /\ (Exhaustive => Emit(calls'))

\* simulation: one line per behaviour, printed by the only action enabled at the end
Finish == phase = "done" /\ phase' = "printed" /\ UNCHANGED <<stack, nonces, calls>> /\ Emit(calls)

Next == IF phase = "done" THEN (~Exhaustive /\ Finish)
        ELSE IF phase = "printed" THEN FALSE
        ELSE IF ~Exhaustive /\ Len(calls) >= 1 /\ RandomElement(1..4) = 1 THEN (Commit \/ Close)
        ELSE (\E n \in Node : Add(n)) \/ Commit \/ Close
Spec == Init /\ [][Next]_vars

\* an accepted stream leaves exactly one complete tree: every pending node was written or is the root
Accepted == phase # "adding" /\ Len(calls) > 0 /\ calls[Len(calls)].op = "commit" /\ ~calls[Len(calls)].err
InvAccepted == Accepted => Len(stack) <= 1
=============================================================================
