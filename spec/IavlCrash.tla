------------------------------ MODULE IavlCrash ------------------------------
(***************************************************************************)
(* The write protocols of cosmos/iavl against a stop of the process        *)
(* between any two physical writes (C05), at the level of WHAT is written  *)
(* in WHICH ORDER.  The store is abstracted to what recovery looks at:     *)
(*                                                                         *)
(*   body[v]   the nodes of version v are (partly) on disk                 *)
(*   root[v]   the root key (v,1) of version v is on disk (node, marker    *)
(*             or reference) - the root is what makes a version exist      *)
(*   idx       the version whose contents the fast index holds             *)
(*             (a pair <<a, b>> with a # b: entries of a and b are mixed)  *)
(*   label     the version in the storage-version label                    *)
(*                                                                         *)
(* Every writing operation appends abstract write items to a batch; the    *)
(* batch may flush any prefix at any time (BatchWithFlusher) and is        *)
(* written completely at the end; Crash drops what was not flushed.        *)
(* Recover is what Load() does on the surviving store.                     *)
(*                                                                         *)
(* CrashAtomic: whatever the flush points and the crash point, recovery    *)
(* succeeds and shows the versions before the operation or after it, and   *)
(* the index is either rebuilt (label differs from the latest version) or  *)
(* describes the recovered latest version.                                 *)
(*                                                                         *)
(* Constants select the code as found or as repaired, so that TLC          *)
(* re-derives each counter-example:                                        *)
(*   LabelFirst     commit writes the label before the index entries       *)
(*   ResidueRecovery Load() discards a latest version without a root       *)
(*   MarkerFirst    prune deletes a version's root marker before its nodes *)
(*   BuildLabelLast an index (re)build writes the entries first and the     *)
(*                  label, which declares the index complete, last          *)
(*   WipeWhenEmpty  the clean-up of a residue labels the index 0; when no   *)
(*                  version remains that is the label of the empty latest   *)
(*                  version, so the entries have to be deleted as well      *)
(* The two listed findings are the disjuncts DevPrune and DevRollback.     *)
(***************************************************************************)
EXTENDS Integers, Sequences, FiniteSets, TLC

CONSTANTS N,               \* versions 1..N may exist
          LabelFirst, ResidueRecovery, MarkerFirst,
          BuildLabelLast,  \* an index build writes its label after the entries
          WipeWhenEmpty    \* discarding the residue of the very first commit also deletes the index entries

Vers == 1..N

VARIABLES body, root, idx, label,     \* the disk
          batch,                      \* pending write items
          op,                         \* running operation: [kind, a] or [kind |-> "none"]
          pre, post,                  \* logical version sets (first..latest) before / after the running operation
          crashed, rec                \* result of a crash + recovery: [ok, first, latest, idxok]

vars == <<body, root, idx, label, batch, op, pre, post, crashed, rec>>

None == [kind |-> "none"]
Range(f, l) == [first |-> f, latest |-> l]

\* an empty store whose (empty) index is labelled 0
Init == /\ body = [v \in Vers |-> FALSE] /\ root = [v \in Vers |-> FALSE]
        /\ idx = <<0, 0>> /\ label = 0
        /\ batch = <<>> /\ op = None
        /\ pre = Range(0, 0) /\ post = Range(0, 0)
        /\ crashed = FALSE /\ rec = [ok |-> TRUE]

\* what Load() sees
Highest == IF \E v \in Vers : body[v] \/ root[v] THEN CHOOSE v \in Vers : (body[v] \/ root[v]) /\ \A w \in Vers : (body[w] \/ root[w]) => w <= v ELSE 0
\* the first version: binary search over root keys finds the lowest root at or above which all roots exist (holes confuse it)
LowestRoot == IF \E v \in Vers : root[v] THEN CHOOSE v \in Vers : root[v] /\ \A w \in Vers : root[w] => v <= w ELSE 0
Contiguous(f, l) == \A v \in (f..l) \cap Vers : root[v]

Apply(item) ==
  CASE item.w = "body"    -> body' = [body EXCEPT ![item.v] = TRUE] /\ UNCHANGED <<root, idx, label>>
    [] item.w = "root"    -> root' = [root EXCEPT ![item.v] = TRUE] /\ UNCHANGED <<body, idx, label>>
    [] item.w = "idx"     -> idx' = <<idx[1], item.v>> /\ UNCHANGED <<body, root, label>>   \* entries of item.v start to replace the old ones
    [] item.w = "idxdone" -> idx' = <<item.v, item.v>> /\ UNCHANGED <<body, root, label>>
    [] item.w = "label"   -> label' = item.v /\ UNCHANGED <<body, root, idx>>
    [] item.w = "delbody" -> body' = [body EXCEPT ![item.v] = FALSE] /\ UNCHANGED <<root, idx, label>>
    [] item.w = "delroot" -> root' = [root EXCEPT ![item.v] = FALSE] /\ UNCHANGED <<body, idx, label>>

\* ---- operations: they only fill the batch ----
\* SaveVersion(latest+1), fast index on: label, index entries, nodes, root last
StartCommit ==
  /\ op = None /\ ~crashed /\ pre.latest < N
  /\ LET v == post.latest + 1
         ix == <<[w |-> "idx", v |-> v], [w |-> "idxdone", v |-> v]>>
         lb == <<[w |-> "label", v |-> v]>> IN
     /\ batch' = (IF LabelFirst THEN lb \o ix ELSE ix \o lb) \o <<[w |-> "body", v |-> v], [w |-> "root", v |-> v]>>
     /\ op' = [kind |-> "commit", a |-> v]
     /\ pre' = post /\ post' = Range(IF post.first = 0 THEN v ELSE post.first, v)
  /\ UNCHANGED <<body, root, idx, label, crashed, rec>>
\* SaveVersion(latest+1) through a handle with the fast index off: nodes and root only, the label goes stale
StartCommitNoIndex ==
  /\ op = None /\ ~crashed /\ pre.latest < N
  /\ LET v == post.latest + 1 IN
     /\ batch' = <<[w |-> "body", v |-> v], [w |-> "root", v |-> v]>>
     /\ op' = [kind |-> "commit", a |-> v]
     /\ pre' = post /\ post' = Range(IF post.first = 0 THEN v ELSE post.first, v)
  /\ UNCHANGED <<body, root, idx, label, crashed, rec>>
\* a handle with the index on finds a stale label and rebuilds the index from the latest version
StartBuild ==
  /\ op = None /\ ~crashed /\ label # post.latest
  /\ LET v == post.latest
         ix == <<[w |-> "idx", v |-> v], [w |-> "idxdone", v |-> v]>>
         lb == <<[w |-> "label", v |-> v]>> IN
     batch' = IF BuildLabelLast THEN ix \o lb ELSE lb \o ix
  /\ op' = [kind |-> "build", a |-> post.latest]
  /\ pre' = post /\ post' = post
  /\ UNCHANGED <<body, root, idx, label, crashed, rec>>
\* DeleteVersionsTo(n): per version, root marker and nodes
StartPrune(n) ==
  /\ op = None /\ ~crashed /\ n >= post.first /\ n < post.latest
  /\ LET One(v) == IF MarkerFirst THEN <<[w |-> "delroot", v |-> v], [w |-> "delbody", v |-> v]>>
                   ELSE <<[w |-> "delbody", v |-> v], [w |-> "delroot", v |-> v]>>
         RECURSIVE All(_)
         All(v) == IF v > n THEN <<>> ELSE One(v) \o All(v + 1) IN
     batch' = All(post.first)
  /\ op' = [kind |-> "prune", a |-> n]
  /\ pre' = post /\ post' = Range(n + 1, post.latest)
  /\ UNCHANGED <<body, root, idx, label, crashed, rec>>
\* LoadVersionForOverwriting(t): ascending range delete of every key of the versions above t, label invalidated
StartRollback(t) ==
  /\ op = None /\ ~crashed /\ t >= post.first /\ t < post.latest
  /\ LET RECURSIVE All(_)
         All(v) == IF v > post.latest THEN <<>> ELSE <<[w |-> "delroot", v |-> v], [w |-> "delbody", v |-> v]>> \o All(v + 1) IN
     batch' = All(t + 1) \o <<[w |-> "label", v |-> 0]>>
  /\ op' = [kind |-> "rollback", a |-> t]
  /\ pre' = post /\ post' = Range(post.first, t)
  /\ UNCHANGED <<body, root, idx, label, crashed, rec>>

\* the batch flushes its first item (any number of times before the final write)
Flush == /\ op # None /\ ~crashed /\ Len(batch) > 0
         /\ Apply(Head(batch)) /\ batch' = Tail(batch)
         /\ UNCHANGED <<op, pre, post, crashed, rec>>
\* the final write of the operation: nothing pending any more
Finish == /\ op # None /\ ~crashed /\ Len(batch) = 0
          /\ op' = None /\ pre' = post
          \* an index rebuild at the next open is part of Recover; a completed rollback rebuilds it now
          /\ (IF op.kind = "rollback" THEN idx' = <<op.a, op.a>> /\ label' = op.a ELSE UNCHANGED <<idx, label>>)
          /\ UNCHANGED <<body, root, batch, post, crashed, rec>>

\* the process stops: pending writes are lost; the store is opened again
Crash ==
  /\ op # None /\ ~crashed
  /\ crashed' = TRUE /\ batch' = <<>>
  /\ LET hi == Highest
         \* a latest version without root is the residue of an interrupted commit
         residue == hi # 0 /\ ~root[hi]
         lat == IF residue /\ ResidueRecovery THEN (IF \E v \in Vers : root[v] THEN CHOOSE v \in Vers : root[v] /\ \A w \in Vers : root[w] => w <= v ELSE 0) ELSE hi
         fst == LowestRoot
         loadok == (~residue \/ ResidueRecovery) /\ (lat = 0 \/ root[lat])
         \* the clean-up of a residue (DeleteVersionsFrom) labels the index 0 and, if nothing remains, wipes it
         cleaned == residue /\ ResidueRecovery
         recLabel == IF cleaned THEN 0 ELSE label
         recIdx == IF cleaned /\ lat = 0 /\ WipeWhenEmpty THEN <<0, 0>> ELSE idx
         \* index: trusted iff the label equals the latest version; otherwise rebuilt
         idxok == recLabel # lat \/ (recIdx[1] = lat /\ recIdx[2] = lat) IN
     rec' = [ok |-> loadok, first |-> fst, latest |-> lat, idxok |-> idxok,
             listedIntact |-> loadok /\ Contiguous(fst, lat) /\ \A v \in (fst..lat) \cap Vers : body[v]]
  /\ UNCHANGED <<body, root, idx, label, op, pre, post>>

Next == StartCommit \/ StartCommitNoIndex \/ StartBuild \/ (\E n \in Vers : StartPrune(n)) \/ (\E t \in Vers : StartRollback(t)) \/ Flush \/ Finish \/ Crash
Spec == Init /\ [][Next]_vars

Is(r, rg) == r.ok /\ r.first = rg.first /\ r.latest = rg.latest
\* listed findings: a multi-version prune cut between versions leaves an intermediate first version;
\* a rollback cut inside its ascending range delete leaves a hole / a store that does not load
DevPrune == op.kind = "prune" /\ rec.ok /\ rec.latest = pre.latest /\ rec.first > pre.first /\ rec.first <= post.first /\ rec.listedIntact
DevRollback == op.kind = "rollback"
CrashAtomic == crashed => (((Is(rec, pre) \/ Is(rec, post)) /\ rec.idxok) \/ DevPrune \/ DevRollback)
\* without the deviations: TLC re-derives the listed findings
CrashAtomicStrict == crashed => ((Is(rec, pre) \/ Is(rec, post)) /\ rec.idxok)
=============================================================================
