-------------------------------- MODULE Iavl --------------------------------
(***************************************************************************)
(* The logical layer: cosmos/iavl's MutableTree as a versioned store, one  *)
(* action per public call.  It states WHAT must be true after every call  *)
(* (contents, structural trees and hence root hashes, version range,       *)
(* return values, which calls fail) and is deterministic given the         *)
(* arguments, so TLC can generate expected results for the real library    *)
(* (bindings A-sim / A-exh) and validate recorded ones.                    *)
(*                                                                         *)
(* Read-only calls are deliberately NOT actions: a read never changes the  *)
(* state.  That is the specification of "read-only calls never change any  *)
(* later hash" (C02); the harness interleaves reads everywhere.            *)
(*                                                                         *)
(* Options that must not matter (node-cache size, fast index, flush        *)
(* threshold, sync, backend) do not occur here - except `fast`, which is   *)
(* carried so that the physical layer (IavlStore) and the harness open the *)
(* store the same way.                                                     *)
(***************************************************************************)
EXTENDS IAVLTree, Json

CONSTANTS K,          \* keys are 1..K
          V,          \* values are 0..V-1 (0 = empty byte string)
          IVs,        \* candidate initial versions (0 = option not set)
          D,          \* simulation: length of a behaviour
          MaxVer,     \* exhaustive: bound on the number of commits
          MaxOps,     \* exhaustive: bound on uncommitted writes per version
          Classes,    \* simulation: sequence of action classes (weights by repetition)
          Record      \* TRUE: keep the history variable (generation); FALSE: model checking only

Keys == 1..K
Vals == 0..(V - 1)

VARIABLES work,       \* working tree of the live handle
          saved,      \* function: retained version -> committed tree
          first,      \* oldest retained version (0: none)
          latest,     \* latest committed version (0: none)
          version,    \* version the live handle has loaded / last saved (tree.version)
          fast,       \* the live handle was opened with the fast index enabled
          iv,         \* initial version option of this store (0 = unset)
          nops,       \* uncommitted writes since the last commit/load (bounding only)
          wm, vm,     \* ghost: working map, versioned maps (Keys -> Vals \cup {Absent})
          pins,       \* versions held by an open Exporter of the live handle (version readers)
          wlog,       \* ghost (generation only): the writes since the last commit/load, as change-set pairs
          hist, done

vars == <<work, saved, first, latest, version, fast, iv, nops, wm, vm, wlog, pins, hist, done, pins>>
view == <<work, saved, first, latest, version, fast, iv, nops, pins>>

EmptyMap == [k \in Keys |-> Absent]
Retained == IF latest = 0 THEN {} ELSE first..latest
Restrict(f, S) == [x \in S |-> f[x]]
TreeAt(v) == IF v = 0 THEN Nil ELSE saved[v]
MapAt(v)  == IF v = 0 THEN EmptyMap ELSE vm[v]

\* the version the next SaveVersion will write (MutableTree.WorkingVersion)
TargetOf(ver, i) == IF ver = 0 /\ i # 0 THEN i ELSE ver + 1
Target == TargetOf(version, iv)

Init == /\ work = Nil /\ saved = <<>> /\ first = 0 /\ latest = 0 /\ version = 0
        /\ fast \in BOOLEAN /\ iv \in IVs /\ nops = 0
        /\ wm = EmptyMap /\ vm = <<>> /\ wlog = <<>> /\ pins = {}
        \* the first record of a behaviour says how the store is opened
        /\ hist = (IF Record THEN <<[op |-> "open", a |-> [fast |-> fast], r |-> [ver |-> 0, err |-> FALSE],
                                     first |-> 0, latest |-> 0, ver |-> 0, fast |-> fast, iv |-> iv,
                                     tgt |-> TargetOf(0, iv), work |-> Nil]>> ELSE <<>>)
        /\ done = FALSE

\* every step record carries the expected observable state after the call
Step(op, a, r) == [op |-> op, a |-> a, r |-> r,
                   first |-> first', latest |-> latest', ver |-> version', fast |-> fast', iv |-> iv,
                   tgt |-> TargetOf(version', iv),
                   work |-> work']
\* HistBase is overridden (cfg: HistBase <- ...) by the trace specification, which only needs the last record
HistBase == hist
Log(op, a, r) == hist' = IF Record THEN Append(HistBase, Step(op, a, r)) ELSE hist

WLog(x) == wlog' = IF Record THEN Append(wlog, x) ELSE wlog
WClear  == wlog' = <<>>

---------------------------------------------------------------------------
Set(k, v) ==
  LET r == SetT(work, k, v) IN
  /\ work' = r.t /\ wm' = [wm EXCEPT ![k] = v] /\ nops' = nops + 1
  /\ WLog([k |-> k, v |-> v, del |-> FALSE])
  /\ UNCHANGED <<saved, first, latest, version, fast, iv, vm, done, pins>>
  /\ Log("set", [k |-> k, v |-> v], [upd |-> r.upd, err |-> FALSE])

\* a nil value is rejected without effect
SetNil(k) ==
  /\ UNCHANGED <<work, saved, first, latest, version, fast, iv, nops, wm, vm, wlog, done, pins>>
  /\ Log("setnil", [k |-> k], [err |-> TRUE])

Remove(k) ==
  LET r == RemT(work, k) IN
  /\ work' = r.t /\ wm' = [wm EXCEPT ![k] = Absent] /\ nops' = nops + 1
  /\ WLog([k |-> k, v |-> 0, del |-> TRUE])
  /\ UNCHANGED <<saved, first, latest, version, fast, iv, vm, done, pins>>
  /\ Log("rm", [k |-> k], [rem |-> r.rem, val |-> IF r.rem THEN r.val ELSE Absent, err |-> FALSE])

\* SaveVersion: a new version, or - when the target exists - a no-op iff the hash is identical.
\* w, m, lg: the working tree, working map and write log to commit (SaveChangeSet applies its pairs first).
SaveCore(op, a, w, m, lg) ==
  LET t == Target IN
  IF t \in Retained THEN
     IF SameHash(Stamp(w, t), saved[t]) THEN
        /\ version' = t /\ work' = saved[t] /\ wm' = vm[t] /\ nops' = 0 /\ WClear
        /\ UNCHANGED <<saved, first, latest, fast, iv, vm, done, pins>>
        /\ Log(op, a, [ver |-> t, err |-> FALSE, noop |-> TRUE, tree |-> saved[t]])
     ELSE
        /\ work' = w /\ wm' = m /\ wlog' = lg
        /\ UNCHANGED <<saved, first, latest, version, fast, iv, nops, vm, done, pins>>
        /\ Log(op, a, [ver |-> t, err |-> TRUE, noop |-> FALSE, tree |-> Nil])
  ELSE
     LET s == Stamp(w, t)
         cs == Changes(TreeAt(version), s, t - 1) IN
     /\ saved' = (t :> s) @@ saved
     /\ vm' = (t :> m) @@ vm
     /\ latest' = t /\ version' = t /\ first' = IF first = 0 THEN t ELSE first
     /\ work' = s /\ wm' = m /\ nops' = 0 /\ WClear
     /\ UNCHANGED <<fast, iv, done, pins>>
     \* cs: the change set TraverseStateChanges must report for t; nf: the writes of this version
     \* were already in that normal form (then replaying cs reproduces the same tree, hence hash)
     /\ Log(op, a, [ver |-> t, err |-> FALSE, noop |-> FALSE, tree |-> s, cs |-> cs, nf |-> (lg = cs), pred |-> version])
SaveVersion == SaveCore("save", <<>>, work, wm, wlog)

\* SaveChangeSet(cs): apply the pairs in order, then commit. A removal of a missing key is an
\* error (no version is created; the pairs before it stay applied to the working tree).
\* Uncommitted changes in the working tree: error, nothing happens.
RECURSIVE ApplyCS(_, _, _, _)
ApplyCS(t, m, cs, j) ==    \* returns [t, m, bad]: bad = index of the failing pair or 0
  IF j > Len(cs) THEN [t |-> t, m |-> m, bad |-> 0]
  ELSE LET c == cs[j] IN
       IF c.del THEN LET r == RemT(t, c.k) IN
                     IF ~r.rem THEN [t |-> t, m |-> m, bad |-> j]
                     ELSE ApplyCS(r.t, [m EXCEPT ![c.k] = Absent], cs, j + 1)
       ELSE ApplyCS(SetT(t, c.k, c.v).t, [m EXCEPT ![c.k] = c.v], cs, j + 1)
Dirty == ~IsNil(work) /\ work.ver = 0
SaveChangeSet(cs) ==
  IF Dirty THEN
     /\ UNCHANGED <<work, saved, first, latest, version, fast, iv, nops, wm, vm, wlog, done, pins>>
     /\ Log("savecs", [cs |-> cs], [err |-> TRUE, dirty |-> TRUE])
  ELSE LET r == ApplyCS(work, wm, cs, 1) IN
     IF r.bad # 0 THEN
        /\ work' = r.t /\ wm' = r.m /\ nops' = nops + 1
        /\ wlog' = IF Record THEN wlog \o SubSeq(cs, 1, r.bad - 1) ELSE wlog
        /\ UNCHANGED <<saved, first, latest, version, fast, iv, vm, done, pins>>
        /\ Log("savecs", [cs |-> cs], [err |-> TRUE, dirty |-> FALSE])
     ELSE SaveCore("savecs", [cs |-> cs], r.t, r.m, IF Record THEN wlog \o cs ELSE wlog)

\* discard uncommitted changes
Rollback ==
  /\ work' = TreeAt(version) /\ wm' = MapAt(version) /\ nops' = 0 /\ WClear
  /\ UNCHANGED <<saved, first, latest, version, fast, iv, vm, done, pins>>
  /\ Log("rollback", <<>>, [err |-> FALSE])

\* close the handle, open a new one (fast index on/off chosen per open), Load() the latest version
Reopen(f) ==
  /\ fast' = f /\ version' = latest /\ work' = TreeAt(latest) /\ wm' = MapAt(latest) /\ nops' = 0 /\ WClear
  /\ pins' = {}   \* the harness closes open exporters before it closes the handle
  /\ UNCHANGED <<saved, first, latest, iv, vm, done>>
  /\ Log("reopen", [fast |-> f], [ver |-> latest, err |-> FALSE])

\* close the handle, open a new one and load retained version t directly (LoadVersion(t) on a fresh handle)
ReopenAt(f, t) ==
  /\ t \in Retained
  /\ fast' = f /\ version' = t /\ work' = saved[t] /\ wm' = vm[t] /\ nops' = 0 /\ WClear
  /\ pins' = {}
  /\ UNCHANGED <<saved, first, latest, iv, vm, done>>
  /\ Log("reopenat", [fast |-> f, t |-> t], [ver |-> latest, err |-> FALSE])

\* LoadVersion(t) on the live handle; t = 0 means latest; outside the range: error, tree stays usable
LoadVersion(t) ==
  LET tt == IF t = 0 THEN latest ELSE t IN
  IF latest = 0 /\ t = 0 THEN
     \* nothing to load: the call returns 0 and the working state stays as it is
     /\ UNCHANGED <<work, saved, first, latest, version, fast, iv, nops, wm, vm, wlog, done, pins>>
     /\ Log("load", [t |-> t], [ver |-> 0, err |-> FALSE])
  ELSE IF tt \in Retained THEN
     /\ version' = tt /\ work' = TreeAt(tt) /\ wm' = MapAt(tt) /\ nops' = 0 /\ WClear
     /\ UNCHANGED <<saved, first, latest, fast, iv, vm, done, pins>>
     /\ Log("load", [t |-> t], [ver |-> latest, err |-> FALSE])
  ELSE
     /\ UNCHANGED <<work, saved, first, latest, version, fast, iv, nops, wm, vm, wlog, done, pins>>
     /\ Log("load", [t |-> t], [err |-> TRUE])

\* LoadVersionForOverwriting(t), t >= 1: load t and erase every later version. If a later version
\* is held by an open export the erasure is refused - after the handle has already loaded t.
LoadVersionForOverwriting(t) ==
  IF t \in Retained THEN
     IF \E p \in pins : p > t THEN
        /\ version' = t /\ work' = saved[t] /\ wm' = vm[t] /\ nops' = 0 /\ WClear
        /\ UNCHANGED <<saved, first, latest, fast, iv, vm, done, pins>>
        /\ Log("lvfo", [t |-> t], [err |-> TRUE, loaded |-> TRUE])
     ELSE
        /\ saved' = Restrict(saved, first..t) /\ vm' = Restrict(vm, first..t)
        /\ latest' = t /\ version' = t /\ work' = saved[t] /\ wm' = vm[t] /\ nops' = 0 /\ WClear
        /\ UNCHANGED <<first, fast, iv, done, pins>>
        /\ Log("lvfo", [t |-> t], [err |-> FALSE, loaded |-> TRUE])
  ELSE
     /\ UNCHANGED <<work, saved, first, latest, version, fast, iv, nops, wm, vm, wlog, done, pins>>
     /\ Log("lvfo", [t |-> t], [err |-> TRUE, loaded |-> FALSE])

\* DeleteVersionsTo(n): never the latest version; below the first version: nothing to do
DeleteVersionsTo(n) ==
  IF n >= latest THEN
     /\ UNCHANGED <<work, saved, first, latest, version, fast, iv, nops, wm, vm, wlog, done, pins>>
     /\ Log("delto", [n |-> n], [err |-> TRUE])
  ELSE IF \E p \in pins : p >= first /\ p <= n THEN
     \* a version held by an open export is never deleted: the whole request is refused
     /\ UNCHANGED <<work, saved, first, latest, version, fast, iv, nops, wm, vm, wlog, done, pins>>
     /\ Log("delto", [n |-> n], [err |-> TRUE])
  ELSE IF n < first THEN
     /\ UNCHANGED <<work, saved, first, latest, version, fast, iv, nops, wm, vm, wlog, done, pins>>
     /\ Log("delto", [n |-> n], [err |-> FALSE])
  ELSE
     /\ first' = n + 1
     /\ saved' = Restrict(saved, (n + 1)..latest) /\ vm' = Restrict(vm, (n + 1)..latest)
     /\ UNCHANGED <<work, latest, version, fast, iv, nops, wm, wlog, done, pins>>
     /\ Log("delto", [n |-> n], [err |-> FALSE])
\* contract (doc.go): the version a live handle has loaded is not deleted under it
DelOk(n) == n < version \/ n >= latest
\* the requests that really delete something (generator class "deltook")
DelEff == {n \in first..(latest - 1) : DelOk(n) /\ ~(\E p \in pins : p >= first /\ p <= n)}

\* open / close an Exporter on a retained version (at most one per version here)
ExportOpen(t) ==
  /\ t \in Retained /\ t \notin pins
  /\ pins' = pins \cup {t}
  /\ UNCHANGED <<work, saved, first, latest, version, fast, iv, nops, wm, vm, wlog, done>>
  /\ Log("expopen", [t |-> t], [err |-> FALSE])
ExportClose(t) ==
  /\ t \in pins
  /\ pins' = pins \ {t}
  /\ UNCHANGED <<work, saved, first, latest, version, fast, iv, nops, wm, vm, wlog, done>>
  /\ Log("expclose", [t |-> t], [err |-> FALSE])

\* export version t, import it into an empty store, go on with that store
ImportSwitch(t, f) ==
  /\ t \in Retained
  /\ LET s == ImportTree(saved[t], t) IN
     /\ saved' = (t :> s) /\ vm' = (t :> vm[t])
     /\ first' = t /\ latest' = t /\ version' = t /\ work' = s /\ wm' = vm[t] /\ nops' = 0 /\ fast' = f /\ WClear
     /\ pins' = {}
     /\ UNCHANGED <<iv, done>>
     /\ Log("import", [t |-> t, fast |-> f], [err |-> FALSE, tree |-> s])

---------------------------------------------------------------------------
\* candidate change sets: sequences of one or two pairs
CSPairs == [k : Keys, v : Vals, del : BOOLEAN]
CSCands == {<<p>> : p \in CSPairs} \cup {<<p, q>> : p \in CSPairs, q \in CSPairs}
CSCandsB == {<<p>> : p \in CSPairs} \cup {<<p, q>> : p \in {x \in CSPairs : x.v = 0}, q \in {x \in CSPairs : x.v = 0}}

\* keys written or removed since the last commit / load (v2 requires at most one per key and version)
Touched == {wlog[i].k : i \in 1..Len(wlog)}

\* exhaustive exploration (bounded by MaxVer commits and MaxOps writes per version)
NextBounded ==
  \/ nops < MaxOps /\ \E k \in Keys, v \in Vals : Set(k, v)
  \/ nops < MaxOps /\ \E k \in Keys : Remove(k)
  \/ (latest < MaxVer \/ Target \in Retained) /\ SaveVersion
  \/ nops > 0 /\ Rollback
  \/ \E f \in BOOLEAN : Reopen(f)
  \/ \E f \in BOOLEAN, t \in Retained : ReopenAt(f, t)
  \/ \E t \in 0..(latest + 1) : LoadVersion(t)
  \/ \E t \in 1..(latest + 1) : LoadVersionForOverwriting(t)
  \/ \E n \in 0..(latest + 1) : DelOk(n) /\ DeleteVersionsTo(n)
  \/ \E t \in Retained, f \in BOOLEAN : ImportSwitch(t, f)
  \/ \E t \in Retained : ExportOpen(t)
  \/ \E t \in pins : ExportClose(t)
  \/ nops < MaxOps /\ (latest < MaxVer \/ Target \in Retained) /\ \E cs \in CSCandsB : SaveChangeSet(cs)

\* simulation: pick an action class at random, then TLC picks one enabled instance uniformly;
\* exactly one line per behaviour is printed by Finish
Finish == /\ Len(hist) >= D /\ ~done /\ done' = TRUE
          /\ UNCHANGED <<work, saved, first, latest, version, fast, iv, nops, wm, vm, wlog, pins, hist>>
          /\ PrintT(<<"TRACE", ToJson(hist)>>)

NextSim ==
  IF Len(hist) >= D THEN Finish
  ELSE LET c == Classes[RandomElement(1..Len(Classes))] IN
    CASE c = "set"      -> \E k \in Keys, v \in Vals : Set(k, v)
      [] c = "setnew"   -> IF KeysOf(work) = Keys THEN \E k \in Keys, v \in Vals : Set(k, v)
                           ELSE \E k \in Keys \ KeysOf(work), v \in Vals : Set(k, v)
      [] c = "setnf"    -> LET free == Keys \ Touched IN
                           IF free = {} THEN SaveVersion ELSE \E k \in free, v \in Vals : Set(k, v)
      [] c = "rmnf"     -> LET cand == KeysOf(work) \ Touched IN
                           IF cand = {} THEN SaveVersion ELSE \E k \in cand : Remove(k)
      [] c = "setnil"   -> \E k \in Keys : SetNil(k)
      [] c = "rm"       -> \E k \in Keys : Remove(k)
      [] c = "rmhit"    -> IF IsNil(work) THEN \E k \in Keys : Remove(k) ELSE \E k \in KeysOf(work) : Remove(k)
      [] c = "save"     -> SaveVersion
      [] c = "rollback" -> Rollback
      [] c = "reopen"   -> \E f \in BOOLEAN : Reopen(f)
      [] c = "reopenat" -> IF latest = 0 THEN \E f \in BOOLEAN : Reopen(f) ELSE \E f \in BOOLEAN, t \in Retained : ReopenAt(f, t)
      [] c = "load"     -> \E t \in 0..(latest + 1) : LoadVersion(t)
      [] c = "lvfo"     -> \E t \in 1..(latest + 1) : LoadVersionForOverwriting(t)
      [] c = "delto"    -> \E n \in 0..(latest + 1) : DelOk(n) /\ DeleteVersionsTo(n)
      [] c = "deltook"  -> IF latest = 0 \/ DelEff = {} THEN SaveVersion ELSE \E n \in DelEff : DeleteVersionsTo(n)
      [] c = "import"   -> IF latest = 0 THEN SaveVersion ELSE \E t \in Retained, f \in BOOLEAN : ImportSwitch(t, f)
      [] c = "savecs"   -> \E cs \in CSCands : SaveChangeSet(cs)
      \* replay of the next committed version through SaveChangeSet (a node that restarts from an older version):
      \* the commit is a no-op iff the replayed tree has the committed hash, an error otherwise
      [] c = "savecsreplay" -> IF version # 0 /\ version < latest /\ ~Dirty /\ (version + 1) \in Retained
                               THEN SaveChangeSet(Changes(TreeAt(version), saved[version + 1], version))
                               ELSE IF ~Dirty /\ latest # 0 /\ version = latest /\ (latest - 1) \in Retained
                               THEN LoadVersion(latest - 1)
                               ELSE SaveVersion
      [] c = "expopen"  -> IF Retained \ pins = {} THEN Rollback ELSE \E t \in Retained \ pins : ExportOpen(t)
      [] c = "expclose" -> IF pins = {} THEN Rollback ELSE \E t \in pins : ExportClose(t)
      [] OTHER          -> SaveVersion

\* exhaustive enumeration of histories: every sequence of D calls from the empty store is one behaviour
\* (Record = TRUE and no VIEW, so that each history is a state of its own); printed when complete.
\* SaveChangeSet is left to the random generators: its candidates alone would multiply the count by 12 per call.
NextExh ==
  IF Len(hist) >= D + 1 THEN Finish
  ELSE \/ \E k \in Keys, v \in Vals : Set(k, v)
       \/ \E k \in Keys : Remove(k)
       \/ SaveVersion
       \/ Rollback
       \/ \E f \in BOOLEAN : Reopen(f)
       \/ \E t \in 0..(latest + 1) : LoadVersion(t)
       \/ \E t \in 1..(latest + 1) : LoadVersionForOverwriting(t)
       \/ \E n \in 0..(latest + 1) : DelOk(n) /\ DeleteVersionsTo(n)
       \/ \E t \in Retained, f \in BOOLEAN : ImportSwitch(t, f)
SpecExh == Init /\ [][NextExh]_vars

SpecBounded == Init /\ [][NextBounded]_vars
SpecSim     == Init /\ [][NextSim]_vars

---------------------------------------------------------------------------
(* Invariants *)
MapOf(t) == [k \in Keys |-> Lookup(t, k)]

InvContents == /\ MapOf(work) = wm
               /\ DOMAIN saved = Retained /\ DOMAIN vm = Retained
               /\ \A v \in Retained : MapOf(saved[v]) = vm[v]
InvShape    == /\ WellFormed(work)
               /\ \A v \in Retained : WellFormed(saved[v]) /\ Persisted(saved[v])
InvRange    == /\ pins \subseteq Retained      \* C04/C06: a version held by an open export is never deleted
               /\ (latest = 0) = (first = 0)
               /\ first <= latest
               /\ version \in Retained \cup {0}
               /\ (version = 0) => (latest = 0)
               /\ (iv # 0 /\ latest # 0) => first >= iv
\* node versions never exceed the version of the tree that contains them
RECURSIVE MaxNodeVer(_)
MaxNodeVer(t) == IF IsNil(t) THEN 0 ELSE IF IsLeaf(t) THEN t.ver ELSE Max(t.ver, Max(MaxNodeVer(t.l), MaxNodeVer(t.r)))
InvVersions == \A v \in Retained : MaxNodeVer(saved[v]) <= v
\* rank and lookup are inverse (T3), on the working tree and every version
RankOk(t) == /\ \A k \in KeysOf(t) : LET g == GetWithIndex(t, k) IN g.val = Lookup(t, k) /\ GetByIndex(t, g.idx) = <<k, g.val>>
             /\ \A k \in Keys \ KeysOf(t) : GetWithIndex(t, k).idx = Cardinality({x \in KeysOf(t) : x < k})
             /\ GetByIndex(t, Size(t)) = <<>>
InvRank == RankOk(work) /\ \A v \in Retained : RankOk(saved[v])

=============================================================================
