------------------------------ MODULE IavlFault ------------------------------
(***************************************************************************)
(* What a public call of the library may do when the storage underneath    *)
(* fails (C17) or when the process stops between two physical writes       *)
(* (C05).  The logical state machine is Iavl.tla; this module adds the     *)
(* only two things an interruption may change:                             *)
(*                                                                         *)
(*  - the ANSWER of the interrupted call is the fault-free answer or an    *)
(*    error - never a different value, an absence, a shorter iteration or  *)
(*    a shorter export passed off as complete;                             *)
(*  - the DURABLE state afterwards (what a fresh process finds) is the     *)
(*    state before the call or the state after it; if the call reported    *)
(*    success it is the state after it.                                    *)
(*                                                                         *)
(* The harness owns the enumeration (every storage call of every call of   *)
(* a behaviour fails once; every physical write boundary is a crash point) *)
(* and records one event per interrupted call; TLC validates the recorded  *)
(* trace against Allowed.  "same", "pre", "post" are judged against the    *)
(* expected answers and states that TLC computed for the behaviour from    *)
(* Iavl.tla.                                                               *)
(***************************************************************************)
EXTENDS Integers, Sequences, TLC, Json

Trace == ndJsonDeserialize("trace.ndjson")

VARIABLE l
vars == <<l>>

\* one storage call failed during a call with an error result
AllowedFault(e) ==
  /\ e.ret \in {"same", "error"}
  /\ (e.writer => \/ (e.ret = "same"  /\ e.durable \in {"post", "pre=post"})
                  \/ (e.ret = "error" /\ e.durable \in {"pre", "post", "pre=post"}))
\* the process stopped after a physical write of a writing call; the store is reopened; the call is retried
AllowedCrash(e) ==
  /\ e.recovered \in {"pre", "post", "pre=post"}
  /\ e.retry = "post"
Allowed(e) == IF e.kind = "fault" THEN AllowedFault(e) ELSE AllowedCrash(e)

Init == l = 1
Next == l <= Len(Trace) /\ l' = l + 1
Spec == Init /\ [][Next]_vars

\* every recorded interruption is one the specification admits
Conforms == l <= Len(Trace) => Allowed(Trace[l])
=============================================================================
