SPECIFICATION Spec
INVARIANTS RoundTripLeaf RoundTripInner RoundTripVarint RoundTripFast RoundTripKey KeyOrder Total
CHECK_DEADLOCK FALSE
