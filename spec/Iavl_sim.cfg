SPECIFICATION SpecSim
CONSTANTS
  K = 8
  V = 3
  IVs = {0, 1, 5}
  D = 40
  MaxVer = 99
  MaxOps = 99
  Classes <- SimClasses
  Record = TRUE
INVARIANTS InvContents InvShape InvRange InvVersions InvRank
CHECK_DEADLOCK FALSE
